package main

// Guarded-by table and access classification (C20 O-1/O-3, C19 O-2, C02 O-2).

import (
	"fmt"
	"go/token"
	"go/types"
	"strings"

	"golang.org/x/tools/go/ssa"
)

type protKind int

const (
	protMutex     protKind = iota // reads and writes under Lock (reads also under RLock)
	protAtomic                    // only through sync/atomic
	protImmutable                 // written only before publication (fresh object) or in the listed start-up functions
)

// guardRow is one row of the guarded-by table.
type guardRow struct {
	Rel, Type, Field string
	Kind             protKind
	Lock             string   // lock key for protMutex
	Deep             bool     // the object behind the field (map, slice, list, pointer) is guarded too
	Startup          []string // functions (FnName) allowed to write without the protection (start-up, before concurrency)
	Reason           string
}

func (r guardRow) key() string { return r.Type + "." + r.Field }

// guardTable is the explicit table built by reading the anchors (DESIGN.md
// C20 O-1). One line of reason per row.
var guardTable = []guardRow{
	// ---- broker: matching state ----
	{"broker", "BrokerContext", "idToSnowflake", protMutex, "BrokerContext.snowflakeLock", true, nil, "map of pending snowflakes; BrokerContext comment: 'Synchronization for the snowflake map and heap'"},
	{"broker", "BrokerContext", "snowflakes", protMutex, "BrokerContext.snowflakeLock", true, nil, "heap of unrestricted proxies"},
	{"broker", "BrokerContext", "restrictedSnowflakes", protMutex, "BrokerContext.snowflakeLock", true, nil, "heap of restricted proxies"},
	{"broker", "Snowflake", "index", protMutex, "BrokerContext.snowflakeLock", false, nil, "heap position; -1 once claimed"},
	{"broker", "Snowflake", "id", protImmutable, "", false, nil, "set once in AddSnowflake before publication"},
	{"broker", "Snowflake", "proxyType", protImmutable, "", false, nil, "set once in AddSnowflake before publication"},
	{"broker", "Snowflake", "natType", protImmutable, "", false, nil, "set once in AddSnowflake before publication"},
	{"broker", "Snowflake", "clients", protImmutable, "", false, nil, "heap key; must not change while queued"},
	{"broker", "Snowflake", "offerChannel", protImmutable, "", false, nil, "private channel, set once"},
	{"broker", "Snowflake", "answerChannel", protImmutable, "", false, nil, "private channel, set once"},
	{"broker", "BrokerContext", "allowedRelayPattern", protImmutable, "", false, []string{"broker.(*BrokerContext).InstallBridgeListProfile"}, "configured at start-up from main before serving"},
	{"broker", "BrokerContext", "presumedPatternForLegacyClient", protImmutable, "", false, []string{"broker.(*BrokerContext).InstallBridgeListProfile"}, "configured at start-up from main before serving"},
	{"broker", "bridgeListHolder", "bridgeInfo", protMutex, "bridgeListHolder.accessBridgeInfo", true, nil, "bridge map swapped by LoadBridgeInfo"},
	// ---- broker: metrics ----
	{"broker", "Metrics", "countryStats", protMutex, "Metrics.lock", false, nil, "Metrics comment: 'synchronization for access to snowflake metrics'"},
	{"broker", "CountryStats", "proxies", protMutex, "Metrics.lock", true, nil, "per-type address sets"},
	{"broker", "CountryStats", "unknown", protMutex, "Metrics.lock", true, nil, ""},
	{"broker", "CountryStats", "natRestricted", protMutex, "Metrics.lock", true, nil, ""},
	{"broker", "CountryStats", "natUnrestricted", protMutex, "Metrics.lock", true, nil, ""},
	{"broker", "CountryStats", "natUnknown", protMutex, "Metrics.lock", true, nil, ""},
	{"broker", "CountryStats", "counts", protMutex, "Metrics.lock", true, nil, ""},
	{"broker", "Metrics", "clientRoundtripEstimate", protMutex, "Metrics.lock", false, nil, ""},
	{"broker", "Metrics", "proxyIdleCount", protMutex, "Metrics.lock", false, nil, ""},
	{"broker", "Metrics", "clientDeniedCount", protMutex, "Metrics.lock", false, nil, ""},
	{"broker", "Metrics", "clientRestrictedDeniedCount", protMutex, "Metrics.lock", false, nil, ""},
	{"broker", "Metrics", "clientUnrestrictedDeniedCount", protMutex, "Metrics.lock", false, nil, ""},
	{"broker", "Metrics", "clientProxyMatchCount", protMutex, "Metrics.lock", false, nil, ""},
	{"broker", "Metrics", "proxyPollWithRelayURLExtension", protMutex, "Metrics.lock", false, nil, ""},
	{"broker", "Metrics", "proxyPollWithoutRelayURLExtension", protMutex, "Metrics.lock", false, nil, ""},
	{"broker", "Metrics", "proxyPollRejectedWithRelayURLExtension", protMutex, "Metrics.lock", false, nil, ""},
	{"broker", "Metrics", "geoipdb", protMutex, "Metrics.lock", false, nil, "replaced on SIGHUP"},
	{"broker", "Metrics", "distinctIPWriter", protMutex, "Metrics.lock", false, []string{"broker.main"}, "set from main before the server starts; used under the lock"},
	{"broker", "roundedCounter", "total", protMutex, "roundedCounter.lock", false, nil, "true count"},
	{"broker", "roundedCounter", "value", protMutex, "roundedCounter.lock", false, nil, "published rounded count"},
	// ---- ipsetsink (used by the broker under Metrics.lock) ----
	{"common/ipsetsink/sinkcluster", "ClusterWriter", "current", protMutex, "Metrics.lock", false, nil, "only reached through Metrics.RecordIPAddress"},
	{"common/ipsetsink/sinkcluster", "ClusterWriter", "lastWriteTime", protMutex, "Metrics.lock", false, nil, "only reached through Metrics.RecordIPAddress"},
	// ---- turbotunnel ----
	{"common/turbotunnel", "ClientMap", "inner", protMutex, "ClientMap.lock", false, nil, "ClientMap comment: 'Synchronizes access to inner'"},
	{"common/turbotunnel", "clientMapInner", "byAge", protMutex, "ClientMap.lock", true, nil, ""},
	{"common/turbotunnel", "clientMapInner", "byAddr", protMutex, "ClientMap.lock", true, nil, ""},
	// ---- server ----
	{"server/lib", "clientIDMap", "entries", protMutex, "clientIDMap.lock", true, nil, ""},
	{"server/lib", "clientIDMap", "oldest", protMutex, "clientIDMap.lock", false, nil, ""},
	{"server/lib", "clientIDMap", "current", protMutex, "clientIDMap.lock", true, nil, ""},
	// ---- client ----
	{"client/lib", "WebRTCPeer", "lastReceive", protMutex, "WebRTCPeer.mu", false, nil, "struct comment: 'mu protects the following'"},
	{"client/lib", "WebRTCPeer", "bytesLogger", protMutex, "WebRTCPeer.mu", false, nil, "replaced by Peers.Pop while callbacks run"},
	{"client/lib", "Peers", "bytesLogger", protImmutable, "", false, []string{"client/lib.(*Transport).Dial"}, "installed by Dial before connectLoop and the dial loop start; read by Pop"},
	{"client/lib", "Peers", "Tongue", protImmutable, "", false, nil, "set by NewPeers"},
	{"client/lib", "Peers", "snowflakeChan", protImmutable, "", false, nil, "set by NewPeers"},
	{"client/lib", "Peers", "melt", protImmutable, "", false, nil, "set by NewPeers; closed, never replaced"},
	{"client/lib", "Peers", "activePeers", protMutex, "Peers.collectLock", true, nil, "list of live peers"},
	{"client/lib", "BrokerChannel", "natType", protMutex, "BrokerChannel.lock", false, nil, "updated by the NAT probe goroutine"},
	// ---- proxy ----
	{"proxy/lib", "webRTCConn", "dc", protMutex, "webRTCConn.lock", false, nil, "struct comment: 'Synchronization for DataChannel destruction'"},
	{"proxy/lib", "tokens_t", "clients", protAtomic, "", false, nil, "updated with atomic adds"},
	{"proxy/lib", "bytesSyncLogger", "outbound", protMutex, "bytesSyncLogger.lock", false, nil, ""},
	{"proxy/lib", "bytesSyncLogger", "inbound", protMutex, "bytesSyncLogger.lock", false, nil, ""},
	{"proxy/lib", "bytesSyncLogger", "outEvents", protMutex, "bytesSyncLogger.lock", false, nil, ""},
	{"proxy/lib", "bytesSyncLogger", "inEvents", protMutex, "bytesSyncLogger.lock", false, nil, ""},
	{"proxy/lib", "logEventLogger", "inboundSum", protMutex, "logEventLogger.lock", false, nil, ""},
	{"proxy/lib", "logEventLogger", "outboundSum", protMutex, "logEventLogger.lock", false, nil, ""},
	{"proxy/lib", "logEventLogger", "connectionCount", protMutex, "logEventLogger.lock", false, nil, ""},
	// ---- common ----
	{"common/task", "Periodic", "running", protMutex, "Periodic.access", false, nil, ""},
	{"common/task", "Periodic", "timer", protMutex, "Periodic.access", false, nil, ""},
	{"common/event", "eventBus", "listeners", protMutex, "eventBus.lock", true, nil, ""},
	{"common/safelog", "LogScrubber", "buffer", protMutex, "LogScrubber.lock", true, nil, ""},
}

// ptrImmutable: (deep rows) the field itself is set once before publication and
// may be read anywhere; only the object behind it needs the lock.
var ptrImmutable = map[string]bool{"BrokerContext.idToSnowflake": true, "BrokerContext.snowflakes": true,
	"BrokerContext.restrictedSnowflakes": true, "Peers.activePeers": true}

type accessKind int

const (
	accRead accessKind = iota
	accWrite
	accAtomic
)

func (k accessKind) String() string { return [...]string{"read", "write", "atomic"}[k] }

type access struct {
	Fn    *ssa.Function
	Instr ssa.Instruction
	Kind  accessKind
	Base  ssa.Value
	What  string // "field", "map update", ...
	Deep  bool   // touches the object behind the field (map, slice, pointee), not the field itself
}

// accessesOfField enumerates every access to field f in fns.
func accessesOfField(fns []*ssa.Function, f *types.Var, deep bool) []access {
	var out []access
	owner := fieldOwner(f)
	for _, fn := range fns {
		allInstrs(fn, func(in ssa.Instruction) {
			switch x := in.(type) {
			case *ssa.FieldAddr:
				if _, g, ok := fieldOfAddr(x); ok && g == f {
					out = append(out, classifyAddrUses(fn, x, x.X, deep)...)
				}
			case *ssa.Field:
				st, _ := x.X.Type().Underlying().(*types.Struct)
				if st != nil && st.Field(x.Field) == f {
					out = append(out, access{fn, in, accRead, x.X, "field of struct value", false})
					if deep {
						out = append(out, deepUses(fn, x, x.X)...)
					}
				}
			case *ssa.UnOp:
				// whole-struct copy: reads every field
				if x.Op == token.MUL && owner != nil {
					if n, ok := x.Type().(*types.Named); ok && n.Obj() == owner {
						if _, isAlloc := x.X.(*ssa.Alloc); !isAlloc {
							out = append(out, access{fn, in, accRead, x.X, "copy of the whole struct", false})
						}
					}
				}
			}
		})
	}
	return out
}

var fieldOwnerCache = map[*types.Var]*types.TypeName{}

// fieldOwner finds the named struct type declaring f.
func fieldOwner(f *types.Var) *types.TypeName {
	if tn, ok := fieldOwnerCache[f]; ok {
		return tn
	}
	var res *types.TypeName
	if f.Pkg() != nil {
		scope := f.Pkg().Scope()
		for _, n := range scope.Names() {
			tn, ok := scope.Lookup(n).(*types.TypeName)
			if !ok {
				continue
			}
			st, ok := tn.Type().Underlying().(*types.Struct)
			if !ok {
				continue
			}
			for i := 0; i < st.NumFields(); i++ {
				if st.Field(i) == f {
					res = tn
				}
			}
		}
	}
	fieldOwnerCache[f] = res
	return res
}

// classifyAddrUses classifies what happens to the address &base.f.
func classifyAddrUses(fn *ssa.Function, addr ssa.Value, base ssa.Value, deep bool) []access {
	var out []access
	if addr.Referrers() == nil {
		return nil
	}
	for _, r := range *addr.Referrers() {
		switch x := r.(type) {
		case *ssa.Store:
			if x.Addr == addr {
				out = append(out, access{fn, r, accWrite, base, "field", false})
			} else {
				out = append(out, access{fn, r, accWrite, base, "address of the field stored elsewhere", false})
			}
		case *ssa.UnOp:
			if x.Op == token.MUL {
				out = append(out, access{fn, r, accRead, base, "field", false})
				if deep {
					out = append(out, deepUses(fn, x, base)...)
				}
			}
		case *ssa.FieldAddr, *ssa.IndexAddr:
			// nested: &base.f.g / &base.f[i] (array field)
			out = append(out, classifyAddrUses(fn, x.(ssa.Value), base, deep)...)
		case ssa.CallInstruction:
			n := calleeName(x)
			if strings.HasPrefix(n, "sync/atomic.") {
				out = append(out, access{fn, r, accAtomic, base, n, false})
			} else if strings.HasPrefix(n, "(*sync.") || strings.HasPrefix(n, "(*sync/atomic.") {
				// method of a sync type on the field itself: self-synchronised
			} else {
				out = append(out, access{fn, r, accWrite, base, "address passed to " + n, false})
			}
		case *ssa.DebugRef:
		case *ssa.MakeClosure:
			out = append(out, access{fn, r, accWrite, base, "address captured by a closure", false})
		default:
			out = append(out, access{fn, r, accWrite, base, fmt.Sprintf("address used by %T", r), false})
		}
	}
	return out
}

// deepUses: uses of the value loaded from a deep-guarded field (map, slice,
// pointer to a container) that touch the shared object behind it.
func deepUses(fn *ssa.Function, v ssa.Value, base ssa.Value) []access {
	var out []access
	seen := map[ssa.Value]bool{}
	var walk func(v ssa.Value)
	walk = func(v ssa.Value) {
		if seen[v] || v.Referrers() == nil {
			return
		}
		seen[v] = true
		for _, r := range *v.Referrers() {
			switch x := r.(type) {
			case *ssa.MapUpdate:
				if x.Map == v {
					out = append(out, access{fn, r, accWrite, base, "map update", false})
				}
			case *ssa.Lookup:
				if x.X == v {
					out = append(out, access{fn, r, accRead, base, "map lookup", false})
				}
			case *ssa.Range:
				out = append(out, access{fn, r, accRead, base, "range", false})
			case *ssa.IndexAddr:
				if x.X == v {
					for _, a := range classifyAddrUses(fn, x, base, false) {
						a.What = "element " + a.What
						out = append(out, a)
					}
				}
			case *ssa.Index:
				if x.X == v {
					out = append(out, access{fn, r, accRead, base, "element", false})
				}
			case *ssa.Slice:
				if x.X == v {
					walk(x)
				}
			case *ssa.ChangeType:
				walk(x)
			case *ssa.Phi:
				walk(x)
			case ssa.CallInstruction:
				c := x.Common()
				n := calleeName(x)
				switch {
				case n == "builtin.len", n == "builtin.cap":
					out = append(out, access{fn, r, accRead, base, n, false})
				case n == "builtin.delete":
					out = append(out, access{fn, r, accWrite, base, "map delete", false})
				case n == "builtin.append":
					if len(c.Args) > 0 && c.Args[0] == v {
						out = append(out, access{fn, r, accRead, base, "append source", false})
					}
				case !c.IsInvoke() && len(c.Args) > 0 && c.Args[0] == v && staticCallee(x) != nil && staticCallee(x).Signature.Recv() != nil:
					// method call on the guarded object (list.PushBack, heap.Len ...)
					out = append(out, access{fn, r, accWrite, base, "method " + n + " on the guarded object", false})
				case func() bool { _, ok := controlledHigherOrder[n]; return ok }():
					out = append(out, access{fn, r, accWrite, base, n + " on the guarded object", false})
				}
			case *ssa.MakeInterface:
				// boxed and handed to container/heap etc.
				walk(x)
			case *ssa.UnOp:
				if x.Op == token.MUL && x.X == v {
					// *ptr: load of the object behind a pointer field
					out = append(out, access{fn, r, accRead, base, "object behind the pointer", false})
					walk(x)
				}
			}
		}
	}
	walk(v)
	for i := range out {
		out[i].Deep = true
	}
	return out
}

// copiedFromShared: the local cell behind base was filled by copying a whole
// struct value that came from elsewhere (a by-value parameter or receiver, a
// load through a pointer). The cell is private, the maps, slices and pointees
// its fields refer to are still the shared ones.
func copiedFromShared(base ssa.Value) bool {
	root := base
	for {
		switch x := root.(type) {
		case *ssa.FieldAddr:
			root = x.X
			continue
		case *ssa.IndexAddr:
			root = x.X
			continue
		}
		break
	}
	al, ok := root.(*ssa.Alloc)
	if !ok || al.Referrers() == nil {
		return false
	}
	for _, r := range *al.Referrers() {
		st, ok := r.(*ssa.Store)
		if !ok || st.Addr != ssa.Value(al) {
			continue
		}
		switch v := st.Val.(type) {
		case *ssa.Parameter, *ssa.FreeVar, *ssa.Phi, *ssa.Extract:
			return true
		case *ssa.UnOp:
			if v.Op == token.MUL {
				if _, isAlloc := v.X.(*ssa.Alloc); !isAlloc {
					return true
				}
			}
		}
	}
	return false
}

// isFreshBase: base is an object allocated in fn that has not been published
// before instruction at.
func isFreshBase(fn *ssa.Function, base ssa.Value, at ssa.Instruction) bool {
	root := base
	for {
		switch x := root.(type) {
		case *ssa.FieldAddr:
			root = x.X
			continue
		case *ssa.IndexAddr:
			root = x.X
			continue
		}
		break
	}
	al, ok := root.(*ssa.Alloc)
	if !ok {
		// the pointer lives in a local variable that a closure captures (m := new(T); ...; go func() { m... }()):
		// the object is fresh until the variable - or a value loaded from it - is handed on
		if fresh, handled := freshThroughCell(fn, root, at); handled {
			return fresh
		}
		return false
	}
	if al.Parent() != fn {
		return false
	}
	if al.Referrers() == nil {
		return true
	}
	for _, r := range *al.Referrers() {
		pub := false
		switch x := r.(type) {
		case *ssa.FieldAddr, *ssa.IndexAddr, *ssa.DebugRef:
		case *ssa.UnOp:
			// load of the whole struct value (copy): not a publication of the pointer
		case *ssa.Store:
			if x.Val == ssa.Value(al) {
				pub = true
			}
		default:
			pub = true
		}
		if pub {
			if r == at {
				continue
			}
			if canFollowAvoiding(r, at, al) {
				return false
			}
		}
	}
	return true
}

// freshThroughCell: root is a load of a local pointer variable (a cell that is an
// Alloc of fn) which is assigned exactly once, a fresh allocation of fn. The
// object is unpublished at `at` if nothing that hands the cell or a value loaded
// from it to someone else (closure creation, call argument, store, return, send)
// can execute before `at`.
func freshThroughCell(fn *ssa.Function, root ssa.Value, at ssa.Instruction) (fresh, handled bool) {
	ld, ok := root.(*ssa.UnOp)
	if !ok || ld.Op != token.MUL {
		return false, false
	}
	cell, ok := ld.X.(*ssa.Alloc)
	if !ok || cell.Parent() != fn || cell.Referrers() == nil {
		return false, false
	}
	var obj *ssa.Alloc
	nStores := 0
	var pubs []ssa.Instruction
	for _, r := range *cell.Referrers() {
		switch x := r.(type) {
		case *ssa.Store:
			if x.Addr == ssa.Value(cell) {
				nStores++
				obj, _ = x.Val.(*ssa.Alloc)
			} else {
				pubs = append(pubs, x)
			}
		case *ssa.UnOp:
			// a loaded copy of the pointer: field/element addressing keeps it private, anything else hands it on
			if x.Referrers() != nil {
				for _, u := range *x.Referrers() {
					switch u.(type) {
					case *ssa.FieldAddr, *ssa.IndexAddr, *ssa.DebugRef:
					default:
						pubs = append(pubs, u)
					}
				}
			}
		case *ssa.DebugRef:
		default:
			pubs = append(pubs, r)
		}
	}
	if nStores != 1 || obj == nil || obj.Parent() != fn {
		return false, false
	}
	// the object itself must not be handed on either, other than into the cell
	if obj.Referrers() != nil {
		for _, r := range *obj.Referrers() {
			switch x := r.(type) {
			case *ssa.FieldAddr, *ssa.IndexAddr, *ssa.DebugRef, *ssa.UnOp:
			case *ssa.Store:
				if x.Val == ssa.Value(obj) && x.Addr != ssa.Value(cell) {
					pubs = append(pubs, x)
				}
			default:
				pubs = append(pubs, r)
			}
		}
	}
	for _, pub := range pubs {
		if pub == at {
			continue
		}
		if canFollowAvoiding(pub, at, obj) {
			return false, true
		}
	}
	return true, true
}

// handedToGoroutineBefore: a go statement of the accessing function that receives
// the accessed object (as an argument, or captured by the literal it starts) and
// can execute before the access. A start-up write is "before concurrency" only
// while no such goroutine exists.
func handedToGoroutineBefore(a access) ssa.Instruction {
	base := a.Base
	for {
		switch x := base.(type) {
		case *ssa.FieldAddr:
			base = x.X
			continue
		case *ssa.IndexAddr:
			base = x.X
			continue
		}
		break
	}
	obj := strip(base)
	same := func(v ssa.Value) bool {
		v = strip(v)
		if v == obj {
			return true
		}
		// both loaded from the same local variable
		if l1, ok1 := v.(*ssa.UnOp); ok1 {
			if l2, ok2 := obj.(*ssa.UnOp); ok2 && l1.X == l2.X {
				return true
			}
			if l1.X == obj {
				return true
			}
		}
		if l2, ok2 := obj.(*ssa.UnOp); ok2 && l2.X == v {
			return true // the variable itself is captured
		}
		// the captured variable holds the object
		if al, isAl := v.(*ssa.Alloc); isAl && al.Referrers() != nil {
			for _, r := range *al.Referrers() {
				if st, isSt := r.(*ssa.Store); isSt && st.Addr == ssa.Value(al) && strip(st.Val) == obj {
					return true
				}
			}
		}
		return false
	}
	var found ssa.Instruction
	allInstrs(a.Fn, func(in ssa.Instruction) {
		g, ok := in.(*ssa.Go)
		if !ok || found != nil {
			return
		}
		uses := false
		for _, arg := range g.Call.Args {
			if same(arg) {
				uses = true
			}
		}
		if mc, isMC := g.Call.Value.(*ssa.MakeClosure); isMC {
			for _, b := range mc.Bindings {
				if same(b) {
					uses = true
				}
			}
		}
		if g.Call.IsInvoke() && same(g.Call.Value) {
			uses = true
		}
		if uses && canFollow(g, a.Instr) {
			found = g
		}
	})
	return found
}

// checkGuardRows decides the rows whose key matches sel (nil: all). scope is
// the set of functions whose accesses are examined.
func (c *Ctx) checkGuardRows(rule string, rows []guardRow, scope []*ssa.Function) {
	p := c.P
	le := p.Locks()
	dead := map[*ssa.Function]bool{}
	for _, fn := range scope {
		// dead code of a main package: no callers, not a root of any kind
		if why, ok := le.root[fn]; ok && why == "no call site in the repository" && fn.Pkg != nil && fn.Pkg.Pkg.Name() == "main" && fn.Parent() == nil {
			dead[fn] = true
		}
	}
	for _, row := range rows {
		f := p.Field(row.Rel, row.Type, row.Field)
		if f == nil {
			c.undecided(rule, "row "+row.key(), "-", "guarded field does not resolve (renamed or removed): the table row must be re-confirmed")
			continue
		}
		accs := accessesOfField(scope, f, row.Deep)
		nChecked := 0
		type vkey struct{ fn, what, kind string }
		reported := map[vkey]bool{}
		bad := 0
		for _, a := range accs {
			if dead[a.Fn] {
				continue
			}
			nChecked++
			fnName := p.FnName(a.Fn)
			fresh := isFreshBase(a.Fn, a.Base, a.Instr)
			if fresh && a.Deep && copiedFromShared(a.Base) {
				fresh = false
			}
			okAcc := false
			why := ""
			switch row.Kind {
			case protMutex:
				mode := le.Held(a.Instr, row.Lock)
				switch {
				case fresh:
					okAcc = true
				case ptrImmutable[row.key()] && a.What == "field" && a.Kind == accRead:
					okAcc = true // reading the never-reassigned pointer/map header itself
				case a.Kind == accRead && mode >= heldRead:
					okAcc = true
				case a.Kind != accRead && mode >= heldWrite:
					okAcc = true
				case a.Kind != accRead && contains(row.Startup, fnName) && handedToGoroutineBefore(a) == nil:
					okAcc = true
				default:
					why = fmt.Sprintf("%s of %s (%s) without %s; locks held: %s; entry lockset of %s: %s", a.Kind, row.key(), a.What, row.Lock, le.StateAt(a.Instr), fnName, le.Entry(a.Fn))
				}
			case protAtomic:
				if a.Kind == accAtomic || fresh {
					okAcc = true
				} else {
					why = fmt.Sprintf("plain %s of %s (%s), which is updated with sync/atomic elsewhere", a.Kind, row.key(), a.What)
				}
			case protImmutable:
				if a.Kind == accRead || fresh || (contains(row.Startup, fnName) && handedToGoroutineBefore(a) == nil) {
					okAcc = true
				} else if g := handedToGoroutineBefore(a); contains(row.Startup, fnName) && g != nil {
					why = fmt.Sprintf("%s of %s (%s) in the start-up function, but after the object was handed to the goroutine started at %s: the goroutine can read the field while it is being set", a.Kind, row.key(), a.What, p.instrPos(g))
				} else {
					why = fmt.Sprintf("%s of %s (%s) after publication; the field is treated as immutable once shared", a.Kind, row.key(), a.What)
				}
			}
			if !okAcc {
				k := vkey{fnName, a.What, a.Kind.String()}
				if reported[k] {
					continue
				}
				reported[k] = true
				bad++
				c.viol(rule, fmt.Sprintf("%s %ss %s (%s) without its protection", fnName, a.Kind, row.key(), a.What), p.instrPos(a.Instr), why)
			}
		}
		if bad == 0 {
			prot := row.Lock
			switch row.Kind {
			case protAtomic:
				prot = "sync/atomic only"
			case protImmutable:
				prot = "immutable after publication"
			}
			if nChecked == 0 {
				c.okTrivial(rule, "row "+row.key()+" -> "+prot, p.Pos(f.Pos()), "no access in the analysed scope")
			} else {
				c.ok(rule, "row "+row.key()+" -> "+prot, p.Pos(f.Pos()), fmt.Sprintf("%d access(es), all protected", nChecked))
			}
		}
		c.count("guarded accesses classified", nChecked)
	}
}

func contains(xs []string, s string) bool {
	for _, x := range xs {
		if x == s {
			return true
		}
	}
	return false
}

// checkLockPairing reports unbalanced lock usage in scope: locks still held
// at a return that the function does not hold at entry by contract, unlocks of
// locks not held, self-deadlocks, and lock-order cycles.
func (c *Ctx) checkLockPairing(rule string, scope []*ssa.Function) {
	p := c.P
	le := p.Locks()
	inScope := map[*ssa.Function]bool{}
	for _, fn := range scope {
		inScope[fn] = true
	}
	n := 0
	for _, fn := range scope {
		// every Lock acquired in fn is released on all paths: compare the
		// return states with the entry state.
		entry := le.entry[fn]
		if entry.top {
			continue
		}
		hasLockOp := false
		allInstrs(fn, func(in ssa.Instruction) {
			if ci, ok := in.(ssa.CallInstruction); ok {
				if _, k := lockOp(ci); k != opNone {
					hasLockOp = true
				}
				if callee := staticCallee(ci); callee != nil && len(le.acq[callee].m) > 0 {
					hasLockOp = true
				}
			}
		})
		if !hasLockOp {
			continue
		}
		n++
		key := p.FnName(fn) + " lock pairing"
		// per-return states
		bad := false
		for _, b := range fn.Blocks {
			if len(b.Instrs) == 0 {
				continue
			}
			ret, ok := b.Instrs[len(b.Instrs)-1].(*ssa.Return)
			if !ok {
				continue
			}
			st := le.at[ret]
			if st.top {
				continue
			}
			// wrapper functions legitimately return holding a lock on every path
			for k := range st.m {
				if entry.m[k] == heldNone && le.acq[fn].m[k] == heldNone {
					bad = true
					c.viol(rule, key, p.instrPos(ret), fmt.Sprintf("returns with %s still held on this path but not on every path", k))
				}
			}
		}
		// a function that returns holding a lock it acquired on every path is a locking helper only if some
		// caller goes on after the call (and releases it there, which this rule checks for that caller in turn); a
		// function that is only started as a goroutine, deferred, dispatched dynamically or not called at all keeps
		// the lock for ever
		for k, h := range le.acq[fn].m {
			if h == heldNone || entry.m[k] != heldNone {
				continue
			}
			plain := false
			for _, ci := range p.realCallers(fn) {
				if _, isCall := ci.(*ssa.Call); isCall {
					plain = true
				}
			}
			// a helper nobody calls (half of an exported Lock/Unlock pair, say) holds nothing
			called := false
			if node := p.CallGraph().Nodes[fn]; node != nil {
				for _, e := range node.In {
					if e.Site != nil && e.Caller != nil && e.Caller.Func != nil && p.IsRepoFn(e.Caller.Func) {
						called = true
					}
				}
			}
			if !plain && called {
				bad = true
				c.viol(rule, key, p.Pos(fn.Pos()), fmt.Sprintf("returns with %s held on every path, and no caller continues after the call to release it (it is started with go, deferred or called through a function value or an interface): the lock is never released", k))
			}
		}
		// may-held at return: a lock acquired on some path and not released
		if path := le.leakPath(fn); path != "" {
			bad = true
			c.viol(rule, key, p.Pos(fn.Pos()), path)
		}
		if !bad {
			c.ok(rule, key, p.Pos(fn.Pos()), "every Lock/RLock is released on all paths to a return")
		}
	}
	for _, pi := range le.pairing {
		if inScope[pi.Fn] {
			c.viol(rule, p.FnName(pi.Fn)+" "+pi.Key, p.instrPos(pi.Instr), pi.Detail)
		}
	}
	c.count("functions with lock operations", n)
}

// leakPath runs a may-analysis: is there a path from a Lock to a Return on
// which the matching Unlock (direct or deferred) does not occur?
func (le *LockEngine) leakPath(fn *ssa.Function) string {
	// deferred unlock keys
	deferred := map[string]bool{}
	allInstrs(fn, func(in ssa.Instruction) {
		if df, ok := in.(*ssa.Defer); ok {
			if key, kind := lockOp(df); kind == opUnlock || kind == opRUnlock {
				deferred[key] = true
			}
			if callee := staticCallee(df); callee != nil {
				for k := range le.rel[callee].m {
					deferred[k] = true
				}
			}
		}
	})
	if len(le.acq[fn].m) > 0 {
		return "" // wrapper that returns holding the lock by design
	}
	for _, b := range fn.Blocks {
		for i, in := range b.Instrs {
			c, ok := in.(*ssa.Call)
			if !ok {
				continue
			}
			key, kind := lockOp(c)
			if kind != opLock && kind != opRLock {
				// a call of a helper that returns holding a lock acquires it here
				key = ""
				if callee := staticCallee(c); callee != nil && callee != fn {
					for k, h := range le.acq[callee].m {
						if h != heldNone && le.entry[callee].m[k] == heldNone {
							key = k
						}
					}
				}
				if key == "" {
					continue
				}
			}
			if deferred[key] {
				continue
			}
			self := in
			// search forward for a Return not preceded by an unlock of key
			type pos struct {
				b *ssa.BasicBlock
				i int
			}
			seen := map[*ssa.BasicBlock]bool{}
			var dfs func(b *ssa.BasicBlock, start int) string
			dfs = func(b *ssa.BasicBlock, start int) string {
				for j := start; j < len(b.Instrs); j++ {
					switch y := b.Instrs[j].(type) {
					case *ssa.Call:
						if ssa.Instruction(y) == self {
							return "itself (next iteration)"
						}
						if k2, kind2 := lockOp(y); k2 == key && (kind2 == opUnlock || kind2 == opRUnlock) {
							return ""
						}
						if callee := staticCallee(y); callee != nil {
							if _, ok := le.rel[callee].m[key]; ok {
								return ""
							}
						}
					case *ssa.Return:
						return le.p.instrPos(y)
					}
				}
				for _, s := range b.Succs {
					if seen[s] {
						continue
					}
					seen[s] = true
					if r := dfs(s, 0); r != "" {
						return r
					}
				}
				return ""
			}
			if r := dfs(b, i+1); r != "" {
				if r == "itself (next iteration)" {
					return fmt.Sprintf("%s acquired at %s is acquired there again by the next iteration without having been released", key, le.p.instrPos(in))
				}
				return fmt.Sprintf("%s acquired at %s can reach the return at %s without being released", key, le.p.instrPos(in), r)
			}
		}
	}
	return ""
}

// checkLockOrder reports cycles in the acquired-while-holding graph.
func (c *Ctx) checkLockOrder(rule string) {
	le := c.P.Locks()
	adj := map[string][]string{}
	for e := range le.order {
		adj[e[0]] = append(adj[e[0]], e[1])
	}
	cyc := false
	for e, where := range le.order {
		// is e[0] reachable from e[1]?
		seen := map[string]bool{}
		var dfs func(n string) bool
		dfs = func(n string) bool {
			if n == e[0] {
				return true
			}
			if seen[n] {
				return false
			}
			seen[n] = true
			for _, m := range adj[n] {
				if dfs(m) {
					return true
				}
			}
			return false
		}
		if dfs(e[1]) {
			cyc = true
			c.viol(rule, "lock order "+e[0]+" -> "+e[1], where, "this acquisition order is inverted elsewhere (cycle in the acquired-while-holding graph): possible deadlock")
		} else {
			c.ok(rule, "lock order "+e[0]+" -> "+e[1], where, "no inverse order exists")
		}
	}
	if !cyc && len(le.order) == 0 {
		c.okTrivial(rule, "lock order graph", "-", "no nested acquisitions")
	}
}

// ---------- package-level variables ----------

type globalRow struct {
	Rel, Name string
	Kind      protKind
	LockVar   string   // package-level mutex variable (same package) for protMutex
	Startup   []string // functions allowed to write (single-goroutine start-up)
	Reason    string
}

var globalGuardTable = []globalRow{
	{"proxy/lib", "currentNATType", protMutex, "currentNATTypeAccess", nil, "source comment: 'Obtain currentNATTypeAccess before access'"},
	{"proxy/lib", "broker", protImmutable, "", []string{"proxy/lib.(*SnowflakeProxy).Start"}, "set by Start before the polling loop and the NAT re-test task run"},
	{"proxy/lib", "config", protImmutable, "", []string{"proxy/lib.(*SnowflakeProxy).Start"}, "set by Start before use"},
	{"proxy/lib", "tokens", protImmutable, "", []string{"proxy/lib.(*SnowflakeProxy).Start"}, "set by Start before the first session"},
	{"proxy/lib", "currentNATTypeAccess", protImmutable, "", nil, "initialised once"},
	{"server/lib", "clientIDAddrMap", protImmutable, "", nil, "initialised once; the map synchronises itself"},
	{"common/encapsulation", "paddingBuffer", protImmutable, "", nil, "read-only scratch for padding"},
	{"common/utls", "clientHelloIDMap", protImmutable, "", nil, "lookup table"},
}

// checkGlobalRows decides the package-level rows.
func (c *Ctx) checkGlobalRows(rule string, rows []globalRow) {
	p := c.P
	le := p.Locks()
	for _, row := range rows {
		g := p.Global(row.Rel, row.Name)
		key := "global " + row.Rel + "." + row.Name
		if g == nil {
			c.undecided(rule, key, "-", "package-level variable does not resolve (renamed or removed): the table row must be re-confirmed")
			continue
		}
		lockKey := ""
		if row.Kind == protMutex {
			lockKey = "global:" + g.Pkg.Pkg.Name() + "." + row.LockVar
		}
		n, bad := 0, 0
		fns := p.FnsIn()
		if init := g.Pkg.Func("init"); init != nil {
			_ = init // writes in the package initialiser are before any goroutine exists
		}
		for _, fn := range fns {
			allInstrs(fn, func(in ssa.Instruction) {
				var kind accessKind
				switch x := in.(type) {
				case *ssa.Store:
					if x.Addr != ssa.Value(g) {
						return
					}
					kind = accWrite
				case *ssa.UnOp:
					if x.Op != token.MUL || x.X != ssa.Value(g) {
						return
					}
					kind = accRead
				default:
					return
				}
				n++
				okAcc := false
				why := ""
				switch row.Kind {
				case protMutex:
					mode := le.Held(in, lockKey)
					okAcc = (kind == accRead && mode >= heldRead) || (kind == accWrite && mode >= heldWrite)
					why = fmt.Sprintf("%s of %s without %s; locks held: %s", kind, key, lockKey, le.StateAt(in))
				case protImmutable:
					okAcc = kind == accRead || contains(row.Startup, p.FnName(fn))
					why = fmt.Sprintf("%s of %s outside initialisation/start-up; it is read by other goroutines without synchronisation", kind, key)
				}
				if !okAcc {
					bad++
					c.viol(rule, fmt.Sprintf("%s %ss %s without its protection", p.FnName(fn), kind, key), p.instrPos(in), why)
				}
			})
		}
		if bad == 0 {
			prot := lockKey
			if row.Kind == protImmutable {
				prot = "written only at initialisation/start-up"
			}
			c.ok(rule, "row "+key+" -> "+prot, p.Pos(g.Pos()), fmt.Sprintf("%d access(es), all protected", n))
		}
	}
}

// canFollowAvoiding: can b execute after a on a path that does not execute the
// allocation al again (a fresh object per loop iteration is published at the end
// of one iteration and a *new* object is written in the next)?
func canFollowAvoiding(a, b ssa.Instruction, al *ssa.Alloc) bool {
	if a.Block() == b.Block() && instrIndex(a) < instrIndex(b) {
		return true
	}
	ab := al.Block()
	blocked := func(x *ssa.BasicBlock) bool { return x == ab }
	for _, s := range a.Block().Succs {
		if s == ab {
			// re-entering the allocating block: b is after the allocation there unless it precedes it
			if b.Block() == ab && instrIndex(b) < instrIndex(al) {
				return true
			}
			continue
		}
		if psSearch(s, nil, blocked, func(x *ssa.BasicBlock) bool { return x == b.Block() }) != nil {
			return true
		}
	}
	return false
}

// checkNoLockCopies: a struct that carries its own mutex (rows whose lock is a
// field of the same type) has no method with a value receiver: such a method
// runs on a copy made by the caller before any lock is taken - it locks the
// copy's mutex, which excludes nobody, and returns fields copied while a writer
// may be half way through.
func (c *Ctx) checkNoLockCopies(rule string, rows []guardRow) {
	p := c.P
	seen := map[string]bool{}
	for _, row := range rows {
		if row.Kind != protMutex || !strings.HasPrefix(row.Lock, row.Type+".") || seen[row.Rel+"."+row.Type] {
			continue
		}
		seen[row.Rel+"."+row.Type] = true
		named := p.Type(row.Rel, row.Type)
		if named == nil {
			continue // reported by the row itself
		}
		bad := 0
		for i := 0; i < named.NumMethods(); i++ {
			m := named.Method(i)
			sig := m.Type().(*types.Signature)
			if _, isPtr := sig.Recv().Type().(*types.Pointer); !isPtr {
				bad++
				c.viol(rule, fmt.Sprintf("%s.%s.%s has a value receiver", row.Rel, row.Type, m.Name()), p.Pos(m.Pos()), "the method works on a copy of the struct made before "+row.Lock+" is taken (and locks the copy's mutex): the guarded fields are read with no protection")
			}
		}
		if bad == 0 {
			c.ok(rule, "no method of "+row.Rel+"."+row.Type+" takes the struct (and its mutex) by value", p.Pos(named.Obj().Pos()), fmt.Sprintf("%d method(s)", named.NumMethods()))
		}
	}
}
