package main

// E-TAINT (forward): follow a value from its sources to everything it can
// reach - through conversions, arithmetic, phis, local variables, struct
// fields (by field, wherever it is loaded in the given scope), array and slice
// cells of local aggregates, parameters of repository functions it is passed
// to and results of repository functions that return it - and report every
// place where it leaves the repository's code (an argument of a call whose
// callee is not a repository function) without having passed a sanitiser.

import (
	"go/token"
	"go/types"

	"golang.org/x/tools/go/ssa"
)

type taintResult struct {
	Leaks     []ssa.Instruction // call instructions that receive the tainted value outside the repository
	Lost      []ssa.Instruction // places the analysis cannot follow (stored through an unknown pointer, sent on a channel ...)
	Sanitised int               // sanitiser calls reached
}

// taintForward: starts are the tainted values; sanitiser(call, argIndex) says
// that the call cleans its argument (the result is clean); scope is where
// loads of tainted fields are looked for.
func taintForward(p *Prog, starts []ssa.Value, sanitiser func(ssa.CallInstruction, int) bool, scope []*ssa.Function) taintResult {
	var res taintResult
	seenV := map[ssa.Value]bool{}
	seenF := map[*types.Var]bool{}
	seenA := map[ssa.Value]bool{} // tainted local aggregates / cells (Alloc, or the array behind a slice)
	reported := map[ssa.Instruction]bool{}
	var work []ssa.Value
	push := func(v ssa.Value) {
		if v != nil && !seenV[v] {
			seenV[v] = true
			work = append(work, v)
		}
	}
	leak := func(in ssa.Instruction) {
		if !reported[in] {
			reported[in] = true
			res.Leaks = append(res.Leaks, in)
		}
	}
	lost := func(in ssa.Instruction) {
		if !reported[in] {
			reported[in] = true
			res.Lost = append(res.Lost, in)
		}
	}
	rootOfAddr := func(a ssa.Value) ssa.Value {
		for {
			switch x := a.(type) {
			case *ssa.IndexAddr:
				a = x.X
				continue
			case *ssa.FieldAddr:
				a = x.X
				continue
			case *ssa.Slice:
				a = x.X
				continue
			}
			return a
		}
	}
	var taintField func(f *types.Var)
	var taintAggregate func(a ssa.Value)
	taintField = func(f *types.Var) {
		if seenF[f] {
			return
		}
		seenF[f] = true
		for _, fn := range scope {
			allInstrs(fn, func(in ssa.Instruction) {
				switch x := in.(type) {
				case *ssa.FieldAddr:
					if _, g, ok := fieldOfAddr(x); ok && g == f && x.Referrers() != nil {
						for _, r := range *x.Referrers() {
							if ld, ok := r.(*ssa.UnOp); ok && ld.Op == token.MUL {
								push(ld)
							}
						}
					}
				case *ssa.Field:
					if st, _ := x.X.Type().Underlying().(*types.Struct); st != nil && st.Field(x.Field) == f {
						push(x)
					}
				}
			})
		}
	}
	// a local aggregate (array behind a composite literal or variadic call, a spilled local): what is
	// read from it, sliced from it or handed on is tainted
	taintAggregate = func(a ssa.Value) {
		if seenA[a] || a.Referrers() == nil {
			return
		}
		seenA[a] = true
		for _, r := range *a.Referrers() {
			switch x := r.(type) {
			case *ssa.UnOp:
				if x.Op == token.MUL {
					push(x)
				}
			case *ssa.Slice:
				push(x)
			case *ssa.IndexAddr:
				if x.Referrers() != nil {
					for _, rr := range *x.Referrers() {
						if ld, ok := rr.(*ssa.UnOp); ok && ld.Op == token.MUL {
							push(ld)
						}
					}
				}
			}
		}
	}
	for _, s := range starts {
		push(s)
	}
	for len(work) > 0 {
		v := work[len(work)-1]
		work = work[:len(work)-1]
		if v.Referrers() == nil {
			continue
		}
		for _, r := range *v.Referrers() {
			switch x := r.(type) {
			case *ssa.DebugRef:
			case *ssa.Phi, *ssa.ChangeType, *ssa.Convert, *ssa.MakeInterface, *ssa.ChangeInterface, *ssa.TypeAssert, *ssa.Extract, *ssa.Field, *ssa.Index:
				push(x.(ssa.Value))
			case *ssa.Slice:
				push(x)
			case *ssa.UnOp:
				if x.Op != token.MUL && x.Op != token.NOT {
					push(x)
				}
				if x.Op == token.MUL {
					push(x) // load through a tainted pointer-like value (slice element address handled below)
				}
			case *ssa.BinOp:
				switch x.Op {
				case token.EQL, token.NEQ, token.LSS, token.LEQ, token.GTR, token.GEQ:
					// a comparison publishes one bit at most; not followed
				default:
					push(x)
				}
			case *ssa.IndexAddr:
				// element address of a tainted slice value: what is loaded is tainted
				if x.X == v && x.Referrers() != nil {
					for _, rr := range *x.Referrers() {
						if ld, ok := rr.(*ssa.UnOp); ok && ld.Op == token.MUL {
							push(ld)
						}
					}
				}
			case *ssa.Range:
				push(x)
			case *ssa.Next:
				push(x)
			case *ssa.Store:
				if x.Val != v {
					continue
				}
				switch a := x.Addr.(type) {
				case *ssa.FieldAddr:
					if _, f, ok := fieldOfAddr(a); ok {
						taintField(f)
					} else {
						lost(x)
					}
				case *ssa.Alloc:
					taintAggregate(a)
				case *ssa.IndexAddr:
					root := rootOfAddr(a)
					if al, ok := root.(*ssa.Alloc); ok {
						taintAggregate(al)
					} else {
						lost(x)
					}
				default:
					lost(x)
				}
			case *ssa.Return:
				fn := x.Parent()
				idx := -1
				for i, rv := range x.Results {
					if rv == v {
						idx = i
					}
				}
				for _, ci := range p.realCallers(fn) {
					cv, ok := ci.(ssa.Value)
					if !ok {
						continue
					}
					if len(x.Results) == 1 {
						push(cv)
						continue
					}
					if cv.Referrers() != nil {
						for _, rr := range *cv.Referrers() {
							if ex, ok := rr.(*ssa.Extract); ok && ex.Index == idx {
								push(ex)
							}
						}
					}
				}
			case ssa.CallInstruction:
				com := x.Common()
				args := callArgs(x)
				for i, a := range args {
					if a != v {
						continue
					}
					if sanitiser != nil && sanitiser(x, i) {
						res.Sanitised++
						continue
					}
					callee := staticCallee(x)
					if callee != nil && callee.Blocks != nil && p.IsRepoFn(callee) && i < len(callee.Params) {
						push(callee.Params[i])
						continue
					}
					if com.IsInvoke() || callee == nil || !p.IsRepoFn(callee) {
						switch calleeName(x) {
						case "builtin.len", "builtin.cap":
							continue
						case "builtin.append", "builtin.copy":
							if cv, ok := x.(ssa.Value); ok {
								push(cv)
							}
							continue
						}
						leak(x)
					}
				}
			case *ssa.MapUpdate, *ssa.Send:
				lost(x.(ssa.Instruction))
			case *ssa.MakeClosure:
				// captured by a closure: the free variable inside is tainted
				if f, ok := x.Fn.(*ssa.Function); ok {
					for i, b := range x.Bindings {
						if b == v && i < len(f.FreeVars) {
							push(f.FreeVars[i])
						}
					}
				}
			}
		}
	}
	return res
}
