package main

// Loading of /repo's current working tree: go/packages (LoadAllSyntax) ->
// go/types -> go/ssa.  Every run re-parses and re-type-checks the tree; nothing
// is cached between runs.

import (
	"fmt"
	"go/token"
	"go/types"
	"os"
	"path/filepath"
	"sort"
	"strings"
	"time"

	"golang.org/x/tools/go/callgraph"
	"golang.org/x/tools/go/callgraph/cha"
	"golang.org/x/tools/go/callgraph/vta"
	"golang.org/x/tools/go/packages"
	"golang.org/x/tools/go/ssa"
	"golang.org/x/tools/go/ssa/ssautil"
)

const modPath = "git.torproject.org/pluggable-transports/snowflake.git/v2"

// Prog is the analysed program.
type Prog struct {
	RepoDir    string
	Fset       *token.FileSet
	Pkgs       []*packages.Package // repository packages (non-test), sorted by path
	SSA        *ssa.Program
	byRel      map[string]*ssa.Package // "broker" -> package
	pkgRel     map[*ssa.Package]string
	fns        []*ssa.Function // every repository function incl. anonymous ones, sorted
	cg         *callgraph.Graph
	cgLite     *cgLite
	lockEngine *LockEngine
	LoadS      float64

	InlineSteps  []inlineStep // non-empty: this is the helper-inlined view (inlineview.go)
	looseAnchors map[string]bool
	renamedFrom  map[string]string        // current "rel.declName" -> reference name it is the renaming of
	renamedTo    map[string]*ssa.Function // reference FnName -> the function that now carries another name

	closureSites map[*ssa.Function][]*ssa.MakeClosure
	callersOf    map[*ssa.Function][]ssa.CallInstruction // static + closure-resolved call sites
}

func loadProg(repo string) (*Prog, error) { return loadProgOverlay(repo, nil) }

func (p *Prog) relFile(name string) string {
	if r, err := filepath.Rel(p.RepoDir, name); err == nil {
		return r
	}
	return name
}

func (p *Prog) viewDescription() interface{} {
	if len(p.InlineSteps) == 0 {
		return "source tree as written"
	}
	var l []string
	for _, st := range p.InlineSteps {
		l = append(l, fmt.Sprintf("%s %s into %s (%s)", st.Kind, st.Callee, st.Caller, p.relFile(st.File)))
	}
	return map[string]interface{}{"kind": "helper-inlined in-memory view (functions not on the reference list inlined into their callers by the vendored x/tools inliner; nothing written, nothing executed)", "transformations": l}
}

// loadProgOverlay loads the tree with some files replaced in memory.
func loadProgOverlay(repo string, overlay map[string][]byte) (*Prog, error) {
	t0 := time.Now()
	abs, err := filepath.Abs(repo)
	if err != nil {
		return nil, err
	}
	env := []string{}
	for _, e := range os.Environ() {
		if strings.HasPrefix(e, "GOFLAGS=") || strings.HasPrefix(e, "GOWORK=") {
			continue
		}
		env = append(env, e)
	}
	// -mod=readonly: the checks must never modify the tree they judge.
	env = append(env, "GOFLAGS=-mod=readonly", "GOWORK=off", "GOPROXY=off", "GOSUMDB=off", "GOTOOLCHAIN=local",
		"GOOS=linux", "GOARCH=amd64", "CGO_ENABLED=0")
	cfg := &packages.Config{
		Mode:    packages.LoadAllSyntax,
		Dir:     abs,
		Env:     env,
		Tests:   false,
		Overlay: overlay,
	}
	initial, err := packages.Load(cfg, "./...")
	if err != nil {
		return nil, fmt.Errorf("packages.Load: %v", err)
	}
	if len(initial) == 0 {
		return nil, fmt.Errorf("no packages loaded from %s", abs)
	}
	nerr := 0
	packages.Visit(initial, nil, func(p *packages.Package) {
		for _, e := range p.Errors {
			if nerr < 20 {
				fmt.Fprintf(os.Stderr, "load error: %s: %v\n", p.PkgPath, e)
			}
			nerr++
		}
	})
	if nerr > 0 {
		return nil, fmt.Errorf("%d package load/type errors", nerr)
	}
	p := &Prog{RepoDir: abs, byRel: map[string]*ssa.Package{}, pkgRel: map[*ssa.Package]string{}}
	p.Fset = initial[0].Fset
	sort.Slice(initial, func(i, j int) bool { return initial[i].PkgPath < initial[j].PkgPath })
	prog, pkgs := ssautil.AllPackages(initial, ssa.InstantiateGenerics)
	prog.Build()
	p.SSA = prog
	for i, ip := range initial {
		if !strings.HasPrefix(ip.PkgPath, modPath) {
			continue
		}
		if pkgs[i] == nil {
			return nil, fmt.Errorf("no SSA for %s", ip.PkgPath)
		}
		rel := strings.TrimPrefix(strings.TrimPrefix(ip.PkgPath, modPath), "/")
		p.Pkgs = append(p.Pkgs, ip)
		p.byRel[rel] = pkgs[i]
		p.pkgRel[pkgs[i]] = rel
	}
	if len(p.Pkgs) == 0 {
		return nil, fmt.Errorf("no repository packages under %s", modPath)
	}
	// Assert the assumptions of DESIGN.md section 6: no reflect/unsafe/cgo in
	// repository code (call-graph soundness).
	for _, ip := range p.Pkgs {
		for path := range ip.Imports {
			if path == "reflect" && reflectUseIsBenign(ip) {
				continue // type inspection only (TypeOf, Kind, DeepEqual): no call or store through reflection
			}
			if path == "unsafe" || path == "reflect" || path == "C" {
				return nil, fmt.Errorf("assumption broken: %s imports %q", ip.PkgPath, path)
			}
		}
	}
	all := ssautil.AllFunctions(prog)
	for fn := range all {
		if fn.Blocks == nil {
			continue
		}
		if p.IsRepoFn(fn) {
			p.fns = append(p.fns, fn)
		}
	}
	sort.Slice(p.fns, func(i, j int) bool {
		a, b := p.fns[i], p.fns[j]
		if a.Pos() != b.Pos() {
			return a.Pos() < b.Pos()
		}
		return a.String() < b.String()
	})
	p.indexCalls()
	p.indexRenames()
	p.LoadS = time.Since(t0).Seconds()
	theProg = p
	return p, nil
}

// IsRepoFn reports whether fn is declared in the repository (including
// anonymous functions and wrappers of repository methods).
func (p *Prog) IsRepoFn(fn *ssa.Function) bool {
	for f := fn; f != nil; f = f.Parent() {
		if f.Pkg != nil {
			_, ok := p.pkgRel[f.Pkg]
			return ok
		}
	}
	if fn.Object() != nil && fn.Object().Pkg() != nil {
		return strings.HasPrefix(fn.Object().Pkg().Path(), modPath)
	}
	return false
}

// Rel returns the repository-relative package path of fn ("" if none).
func (p *Prog) Rel(fn *ssa.Function) string {
	for f := fn; f != nil; f = f.Parent() {
		if f.Pkg != nil {
			return p.pkgRel[f.Pkg]
		}
	}
	if fn.Object() != nil && fn.Object().Pkg() != nil {
		return strings.TrimPrefix(strings.TrimPrefix(fn.Object().Pkg().Path(), modPath), "/")
	}
	return ""
}

// FnName is the stable display name of a repository function:
// "broker.(*IPC).ClientOffers", "broker.(*BrokerContext).Broker$1".
func (p *Prog) FnName(fn *ssa.Function) string {
	if fn == nil {
		return "<nil>"
	}
	if fn.Parent() != nil {
		// anonymous: parent name + suffix after the last '$'
		name := fn.Name()
		if i := strings.LastIndex(name, "$"); i >= 0 {
			return p.FnName(fn.Parent()) + name[i:]
		}
		return p.FnName(fn.Parent()) + "$" + name
	}
	rel := p.Rel(fn)
	if recv := fn.Signature.Recv(); recv != nil {
		t := recv.Type()
		star := ""
		if pt, ok := t.(*types.Pointer); ok {
			t = pt.Elem()
			star = "*"
		}
		tn := t.String()
		if n, ok := t.(*types.Named); ok {
			tn = n.Obj().Name()
		}
		if star != "" {
			return fmt.Sprintf("%s.(*%s).%s", rel, tn, fn.Name())
		}
		return fmt.Sprintf("%s.(%s).%s", rel, tn, fn.Name())
	}
	return rel + "." + fn.Name()
}

// Fn resolves an anchor such as ("broker", "(*IPC).ClientOffers"),
// ("common/util", "IsLocal") or ("broker", "(*BrokerContext).Broker$1").
// It returns nil if the anchor does not resolve.
func (p *Prog) Fn(rel, name string) *ssa.Function {
	want := rel + "." + name
	for _, fn := range p.fns {
		if fn.Synthetic != "" {
			continue
		}
		if p.FnName(fn) == want {
			return fn
		}
	}
	// the anchor may have been renamed: an unambiguous match (same package, receiver type and
	// signature) between a vanished reference function and a function that is not on the list
	if fn := p.renamedTo[want]; fn != nil {
		return fn
	}
	return nil
}

// FnLoose is Fn with one more fallback, for anchors whose rules read parameters by
// type rather than by position: when the named function is gone, the one
// top-level function or method of the package that still carries the same simple
// name (a function turned into a method, a parameter moved into the receiver).
func (p *Prog) FnLoose(rel, name string) *ssa.Function {
	if fn := p.Fn(rel, name); fn != nil {
		return fn
	}
	base := name[strings.LastIndex(name, ".")+1:]
	var found *ssa.Function
	for _, fn := range p.fns {
		if fn.Synthetic != "" || fn.Parent() != nil || fn.Name() != base || p.Rel(fn) != rel {
			continue
		}
		if found != nil {
			return nil
		}
		found = fn
	}
	if found != nil {
		if p.looseAnchors == nil {
			p.looseAnchors = map[string]bool{}
		}
		p.looseAnchors[p.FnName(found)] = true
	}
	return found
}

// paramOfType: the one parameter of fn (receiver included) whose type prints as typ.
func paramOfType(fn *ssa.Function, typ string) *ssa.Parameter {
	var out *ssa.Parameter
	for _, par := range fn.Params {
		if par.Type().String() == typ {
			if out != nil {
				return nil
			}
			out = par
		}
	}
	return out
}

// RefName: the simple name fn had on the reference tree (its own name unless it was renamed).
func (p *Prog) RefName(fn *ssa.Function) string {
	if fn == nil {
		return ""
	}
	if old, ok := p.renamedFrom[p.FnName(fn)]; ok {
		return old[strings.LastIndex(old, ".")+1:]
	}
	return fn.Name()
}

// indexRenames fills renamedFrom/renamedTo from the reference list.
func (p *Prog) indexRenames() {
	p.renamedFrom = map[string]string{}
	p.renamedTo = map[string]*ssa.Function{}
	if p.looseAnchors == nil {
		p.looseAnchors = map[string]bool{}
	}
	if referenceFns == nil {
		return
	}
	present := map[string]string{}
	byKey := map[string]*ssa.Function{}
	for _, fn := range p.fns {
		if fn.Synthetic != "" || fn.Parent() != nil {
			continue
		}
		obj, _ := fn.Object().(*types.Func)
		if obj == nil {
			continue
		}
		k := p.FnName(fn)
		present[k] = sigString(obj)
		byKey[k] = fn
	}
	// static callers of the present functions, as top-level names
	presentCallers := map[string]string{}
	for k, fn := range byKey {
		set := map[string]bool{}
		for _, ci := range p.realCallers(fn) {
			root := ci.Parent()
			for root.Parent() != nil {
				root = root.Parent()
			}
			set[p.FnName(root)] = true
		}
		presentCallers[k] = strings.Join(sortedKeys(set), ",")
	}
	for newKey, oldKey := range renamedFunctionsC(referenceFns, present, referenceCallers, presentCallers) {
		p.renamedFrom[newKey] = oldKey
		p.renamedTo[oldKey] = byKey[newKey]
	}
}

// FnsIn returns the repository source functions (no synthetic wrappers) of
// the given relative packages (all if none given).
func (p *Prog) FnsIn(rels ...string) []*ssa.Function {
	var out []*ssa.Function
	for _, fn := range p.fns {
		if fn.Synthetic != "" {
			continue
		}
		if len(rels) == 0 {
			out = append(out, fn)
			continue
		}
		r := p.Rel(fn)
		for _, w := range rels {
			if r == w {
				out = append(out, fn)
				break
			}
		}
	}
	return out
}

// PkgInits: the synthetic package initialisers of the repository's packages
// (initialisers of package-level variables run there).
func (p *Prog) PkgInits() []*ssa.Function {
	var out []*ssa.Function
	for sp := range p.pkgRel {
		if f := sp.Func("init"); f != nil && f.Blocks != nil {
			out = append(out, f)
		}
	}
	sort.Slice(out, func(i, j int) bool { return out[i].Pkg.Pkg.Path() < out[j].Pkg.Pkg.Path() })
	return out
}

// Pos renders a position relative to the repository root.
func (p *Prog) Pos(pos token.Pos) string {
	if !pos.IsValid() {
		return "-"
	}
	ps := p.Fset.Position(pos)
	f := ps.Filename
	if r, err := filepath.Rel(p.RepoDir, f); err == nil && !strings.HasPrefix(r, "..") {
		f = r
	}
	return fmt.Sprintf("%s:%d", f, ps.Line)
}

// CallGraph builds (once) the VTA call graph seeded by CHA.
func (p *Prog) CallGraph() *callgraph.Graph {
	if p.cg == nil {
		all := ssautil.AllFunctions(p.SSA)
		p.cg = vta.CallGraph(all, cha.CallGraph(p.SSA))
	}
	return p.cg
}

// Type looks up a named type in a repository package.
func (p *Prog) Type(rel, name string) *types.Named {
	sp := p.byRel[rel]
	if sp == nil {
		return nil
	}
	o := sp.Pkg.Scope().Lookup(name)
	if o == nil {
		return nil
	}
	tn, ok := o.(*types.TypeName)
	if !ok {
		return nil
	}
	n, _ := tn.Type().(*types.Named)
	return n
}

// Field looks up a struct field of a named repository type.
func (p *Prog) Field(rel, typ, field string) *types.Var {
	n := p.Type(rel, typ)
	if n == nil {
		return nil
	}
	st, ok := n.Underlying().(*types.Struct)
	if !ok {
		return nil
	}
	for i := 0; i < st.NumFields(); i++ {
		if st.Field(i).Name() == field {
			return st.Field(i)
		}
	}
	return nil
}

// Const returns the constant object of a repository package.
func (p *Prog) Const(rel, name string) *types.Const {
	sp := p.byRel[rel]
	if sp == nil {
		return nil
	}
	c, _ := sp.Pkg.Scope().Lookup(name).(*types.Const)
	return c
}

// Global returns a package-level variable of a repository package.
func (p *Prog) Global(rel, name string) *ssa.Global {
	sp := p.byRel[rel]
	if sp == nil {
		return nil
	}
	g, _ := sp.Members[name].(*ssa.Global)
	return g
}

func (p *Prog) indexCalls() {
	p.closureSites = map[*ssa.Function][]*ssa.MakeClosure{}
	p.callersOf = map[*ssa.Function][]ssa.CallInstruction{}
	for _, fn := range p.fns {
		for _, b := range fn.Blocks {
			for _, in := range b.Instrs {
				if mc, ok := in.(*ssa.MakeClosure); ok {
					if f, ok := mc.Fn.(*ssa.Function); ok {
						p.closureSites[f] = append(p.closureSites[f], mc)
					}
				}
				if ci, ok := in.(ssa.CallInstruction); ok {
					if f := staticCallee(ci); f != nil {
						p.callersOf[f] = append(p.callersOf[f], ci)
					}
				}
			}
		}
	}
}

// realCallers returns the call sites of fn in source functions, looking
// through synthetic promotion/bound-method wrappers.
func (p *Prog) realCallers(fn *ssa.Function) []ssa.CallInstruction {
	var out []ssa.CallInstruction
	seen := map[*ssa.Function]bool{}
	var rec func(f *ssa.Function)
	rec = func(f *ssa.Function) {
		if seen[f] {
			return
		}
		seen[f] = true
		for _, ci := range p.callersOf[f] {
			if par := ci.Parent(); par.Synthetic != "" {
				rec(par)
				continue
			}
			out = append(out, ci)
		}
	}
	rec(fn)
	return out
}

// reflectUseIsBenign: the package uses package reflect only to inspect types
// (TypeOf, Type, Kind and its constants, DeepEqual): nothing is called, set or
// looked up by name through reflection, so the call graph and the store rules
// stay sound.
func reflectUseIsBenign(ip *packages.Package) bool {
	if ip.TypesInfo == nil {
		return false
	}
	allowed := map[string]bool{"TypeOf": true, "Type": true, "Kind": true, "DeepEqual": true, "String": true, "Name": true, "Elem": true}
	for _, obj := range ip.TypesInfo.Uses {
		if obj == nil || obj.Pkg() == nil || obj.Pkg().Path() != "reflect" {
			continue
		}
		if _, isConst := obj.(*types.Const); isConst {
			continue
		}
		if !allowed[obj.Name()] {
			return false
		}
	}
	return true
}
