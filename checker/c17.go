package main

import (
	"fmt"
	"go/token"
	"go/types"
	"strings"

	"golang.org/x/tools/go/ssa"
)

func init() {
	register("C17", propMeta{
		Explanation: "E-GUARD + E-PAIR + E-CHAN + E-PROV on common/turbotunnel. O-1 errors only after close: in RedialPacketConn.ReadFrom/WriteTo every return with a non-nil error is reachable only through a '<-closed' select case; closed is closed only in closeWithError, called only from Close and from the err != nil edge of dialContext. O-2 one carrier at a time, each closed: in dialLoop a carrier obtained on the err == nil edge reaches conn.Close() on every path before the next dial or a return; exchange is called synchronously. O-3 no goroutine outlives its carrier: in every goroutine literal of the package each blocking select has a case on the connection's closed channel, and each unconditional send goes to a channel made by the enclosing call whose constant capacity covers the sends the goroutine can perform before returning. O-4 copy-on-enqueue, never block: every send on a packet queue is inside a select with default and sends a slice made by this invocation, filled by copy from the caller's buffer, of the caller's length; no []byte parameter flows into a send, a struct field or a global; both ReadFrom methods return copy(p, queued). O-5 close-once and publication order: close(closed) only inside closeOnce.Do and after err.Store. O-6 closed means failed: ReadFrom/WriteTo/QueueIncoming test closed (polling) before touching a queue. O-7 expiry shape: removeExpired pops only while now.Sub(oldest.LastSeen) >= timeout with the unscaled timeout; Less orders by LastSeen.Before; the sweeper sleeps timeout/2 and passes the same timeout; SendQueue refreshes LastSeen before heap.Fix/heap.Push; Pop closes the removed queue. Each clause is necessary: e.g. an unbuffered error channel retains one goroutine and carrier per redial. Added after the second seeding round: O-7 also requires that Push/Pop/Swap of clientMapInner have no static caller outside the interface methods (container/heap only); named methods started with go count as goroutine bodies when that go statement is their only use. Added after the third seeding round: the writer goroutine of exchange signals its end on every return (close or send on writeErrCh); the sweeper reads the clock after its sleep; the expiry function is identified by shape if renamed. Added after the fourth seeding round: O-8/C05 the client-map index obligations (Swap, Push, Pop, SendQueue keep byAddr equal to the heap position; no stale index after heap.Fix); the queue of a removed record may be closed by Pop or by every caller of heap.Pop/heap.Remove. Added after the fifth seeding round: O-5b a channel that is both closed and sent on has one mutex held at the close and at every send (D23: the send queue of an expiring client); a deferred Close inside the redial loop does not count as closing the carrier before the next dial; the clock that stamps LastSeen is read with the map lock held. Added after the sixth seeding round and the mutation audit: O-10 E-CLEANUP on turbotunnel, server/lib and websocketconn; O-11 one far-end address across carriers; O-11/C20 the guarded-by rows of the client map. O-7 a LastSeen store precedes heap.Fix and heap.Push on every path; O-12/C20 lock pairing; O-13/O-13b failure branches in turbotunnel (strict) and server/lib.",
		NotDecided:  "FIFO order of Go channels (language guarantee), actual timing of the sweeper, KCP behaviour above the adapters.",
		Assumptions: []string{"conn.Close() unblocks a carrier's pending ReadFrom/WriteTo (net.PacketConn contract)", "Go channel semantics"},
	}, runC17)
}

func runC17(c *Ctx) {
	p := c.P
	tt := p.FnsIn("common/turbotunnel")
	for _, fn := range tt {
		c.analysedFn(p.FnName(fn))
	}

	// ---------- O-10: a failed step releases what the earlier steps created (no leaked conns/goroutines) ----------
	c.checkCleanupOnErrorPaths("O-10 failure returns release what was created", append(append(append([]*ssa.Function{}, tt...), p.FnsIn("server/lib")...), p.FnsIn("common/websocketconn")...))

	c.checkErrorBranchesLeave("O-13 a failed step ends the function", tt)
	c.checkErrorBranchesLeaveMode("O-13b a failed step is not carried on with", p.FnsIn("server/lib"), true)
	// a mutex of the adapters left locked stops every carrier (C20's pairing rule)
	c.prefix = "O-12/C20:"
	c.checkLockPairing("O-2 lock pairing", append(append([]*ssa.Function{}, tt...), p.FnsIn("server/lib")...))
	c.prefix = ""
	// the client map's index and heap are rewritten by every lookup: only under the map's mutex (C20's rows)
	{
		var rows []guardRow
		for _, r := range guardTable {
			if r.Type == "ClientMap" || r.Type == "clientMapInner" {
				rows = append(rows, r)
			}
		}
		c.prefix = "O-11/C20:"
		c.checkGuardRows("O-1 guarded-by table", rows, tt)
		c.prefix = ""
	}
	// ---------- O-1 / O-6: errors only after close; closed means failed ----------
	c.checkErrorsOnlyAfterClose("RedialPacketConn", "QueuePacketConn")
	if qi := p.Fn("common/turbotunnel", "(*QueuePacketConn).QueueIncoming"); qi != nil {
		ops := chanOpsIn(p, qi)
		ok := false
		if len(ops) > 0 {
			first := ops[0]
			for _, op := range ops {
				if op.Instr.Pos() < first.Instr.Pos() {
					first = op
				}
			}
			ok = first.Class == "QueuePacketConn.closed" && first.Mode == "polling"
		}
		c.check(ok, "O-6 closed means failed", "QueuePacketConn.QueueIncoming drops after close", p.Pos(qi.Pos()), "", "incoming packets are queued without testing the closed channel first")
	}
	c.checkCloseOncePublication(tt)
	c.checkRedialAddress()

	// ---------- O-2 one carrier at a time, each closed ----------
	if dl := p.Fn("common/turbotunnel", "(*RedialPacketConn).dialLoop"); dl != nil {
		var dial *ssa.Call
		for _, c2 := range callsIn(dl) {
			if cc, ok := c2.(*ssa.Call); ok {
				if _, f, okf := fieldLoad(cc.Call.Value); okf && f.Name() == "dialContext" {
					dial = cc
				}
			}
		}
		if dial == nil {
			c.undecided("O-2 every carrier is closed", "dialLoop calls dialContext", p.Pos(dl.Pos()), "call not found")
		} else {
			isClose := func(in ssa.Instruction) bool {
				ci, ok := in.(ssa.CallInstruction)
				if !ok || !strings.HasSuffix(calleeName(ci), "net.PacketConn).Close") {
					return false
				}
				if _, isGo := ci.(*ssa.Go); isGo {
					return false
				}
				// a deferred Close inside the redial loop runs when dialLoop returns, not before the next dial
				if d, isDefer := ci.(*ssa.Defer); isDefer && inCycle(d.Block()) {
					return false
				}
				return isResultOfCall(callArgs(ci)[0], dial, 0)
			}
			var path []*ssa.BasicBlock
			for _, e := range errNilEdges(dl, dial, 1) {
				blocked := func(b *ssa.BasicBlock) bool {
					for _, in := range b.Instrs {
						if isClose(in) {
							return true
						}
					}
					return false
				}
				if pth := psSearch(e.To(), nil, blocked, func(b *ssa.BasicBlock) bool {
					if b == dial.Block() {
						return true
					}
					if len(b.Instrs) == 0 {
						return false
					}
					_, ok := b.Instrs[len(b.Instrs)-1].(*ssa.Return)
					return ok
				}); pth != nil {
					path = pth
				}
			}
			c.check(len(errNilEdges(dl, dial, 1)) > 0 && path == nil, "O-2 every carrier is closed", "dialLoop closes each carrier before redialling or returning", p.instrPos(dial), "", "a carrier obtained from dialContext can be dropped without Close (next dial or return reached first)", p.pathString(path)...)
			// exchange synchronous
			okSync := false
			for _, ci := range callsIn(dl) {
				if f := staticCallee(ci); f != nil && f == p.Fn("common/turbotunnel", "(*RedialPacketConn).exchange") {
					_, isCall := ci.(*ssa.Call)
					okSync = isCall && isResultOfCall(ci.Common().Args[1], dial, 0)
				}
			}
			c.check(okSync, "O-2 every carrier is closed", "dialLoop runs exchange synchronously on the dialled carrier", p.Pos(dl.Pos()), "", "exchange is not a synchronous call on the carrier just dialled: two carriers can be active at once")
		}
	}

	// ---------- O-3 goroutine-exit rule ----------
	c.checkGoroutineExits(tt)

	// ---------- O-4 copy-on-enqueue, never block ----------
	// a packet written to an address lands in that client's queue only if the map from addresses to heap
	// positions follows every move of the heap (C05's index obligations)
	c.prefix = "O-8/C05:"
	c.checkClientMapIndex()
	c.prefix = ""
	c.checkNoSendRacesClose("O-5b no send races with a close", append(append([]*ssa.Function{}, tt...), p.FnsIn("server/lib")...))
	c.checkCopyOnEnqueue(tt)

	// ---------- O-7 expiry shape ----------
	c.checkExpiry()
}

func (c *Ctx) checkGoroutineExits(tt []*ssa.Function) {
	p := c.P
	rule := "O-3 no goroutine outlives its carrier"
	// exchange waits for either of its two goroutines on their error channels: each of them must
	// signal on its channel (send or close, a deferred close included) on every way out, or exchange -
	// and with it the carrier's Close and the next dial - waits for ever once the other one is parked
	if ex := p.Fn("common/turbotunnel", "(*RedialPacketConn).exchange"); ex != nil {
		// the channels exchange itself receives from in its final select
		waited := map[ssa.Value]bool{}
		for _, op := range chanOpsIn(p, ex) {
			if op.Dir == chRecv && op.Sel != nil {
				if mc, ok := xstrip(op.Chan).(*ssa.MakeChan); ok {
					waited[mc] = true
				}
			}
		}
		for _, ci := range callsIn(ex) {
			g, ok := ci.(*ssa.Go)
			if !ok {
				continue
			}
			body := staticCallee(g)
			if body == nil || body.Blocks == nil {
				continue
			}
			// the waited channel this body signals on
			signals := func(in ssa.Instruction) bool {
				switch x := in.(type) {
				case *ssa.Send:
					mc, ok := xstrip(x.Chan).(*ssa.MakeChan)
					return ok && waited[mc]
				case ssa.CallInstruction:
					if calleeName(x) == "builtin.close" {
						mc, ok := xstrip(x.Common().Args[0]).(*ssa.MakeChan)
						return ok && waited[mc]
					}
				}
				return false
			}
			any := false
			allInstrs(body, func(in ssa.Instruction) {
				if signals(in) {
					any = true
				}
			})
			if !any {
				continue // not one of the two signalling goroutines
			}
			path := escapesWithout(body.Blocks[0], signals)
			c.check(path == nil, rule, p.FnName(body)+" signals its end to exchange on every way out", p.Pos(body.Pos()), "send on or close of its error channel (deferred close included)",
				"a way out of the goroutine neither sends on nor closes the channel exchange waits on: when it leaves because the connection was closed while the other goroutine is parked in ReadFrom, exchange never returns, the carrier is never closed and the goroutines are retained", p.pathString(path)...)
		}
	}
	n := 0
	for _, fn := range tt {
		for _, ci := range callsIn(fn) {
			g, ok := ci.(*ssa.Go)
			if !ok {
				continue
			}
			clo := staticCallee(g)
			if clo == nil || clo.Blocks == nil {
				continue
			}
			if clo.Parent() == nil && (uniqueSite(clo) != ssa.CallInstruction(g) || !samePkg(clo, fn)) {
				// a named function is a goroutine body in this sense only when this go statement is its single use
				continue
			}
			for _, op := range chanOpsIn(p, clo) {
				if op.Dir == chMake || op.Dir == chClose || op.Mode == "polling" || op.Mode == "timed" {
					continue
				}
				if op.Sel != nil && op.State != 0 {
					continue
				}
				n++
				key := fmt.Sprintf("%s %s", p.FnName(clo), op.String())
				switch {
				case op.Sel != nil:
					hasClosed := false
					for _, st := range op.Sel.States {
						if strings.HasSuffix(chanClass(p, st.Chan), ".closed") && st.Dir == types.RecvOnly {
							hasClosed = true
						}
					}
					c.check(hasClosed, rule, key, p.instrPos(op.Instr), "blocking select has a case on the closed channel", "a goroutine blocks in a select with no case on the connection's closed channel: it outlives Close")
				case op.Dir == chSend:
					mc, _ := strip(op.Chan).(*ssa.MakeChan)
					if mc == nil {
						if fv, ok := op.Chan.(*ssa.UnOp); ok {
							_ = fv
						}
					}
					// resolve captured local
					if mc == nil {
						if fvv, ok := strip(op.Chan).(*ssa.FreeVar); ok {
							if b := freeVarBinding(fvv); b != nil {
								mc, _ = strip(b).(*ssa.MakeChan)
								if mc == nil {
									if al, ok := b.(*ssa.Alloc); ok {
										if s := singleStore(al); s != nil {
											mc, _ = strip(s).(*ssa.MakeChan)
										}
									}
								}
							}
						}
					}
					if mc == nil {
						xforms(op.Chan, func(x ssa.Value) bool {
							m, ok := x.(*ssa.MakeChan)
							if ok {
								mc = m
							}
							return ok
						})
					}
					capacity := int64(-1)
					if mc != nil {
						capacity, _ = constInt(mc.Size)
						if _, isC := mc.Size.(*ssa.Const); !isC {
							capacity = -1
						}
					}
					// the send is followed by a return without another send (not in a loop back to itself)
					once := psSearch(op.Instr.Block(), nil, nil, func(b *ssa.BasicBlock) bool { return false }) == nil
					sendsPerPath := 1
					if inCycle(op.Instr.Block()) {
						// a send inside the loop: does every path from the send leave the loop (return) before sending again?
						if canReenter(op.Instr.Block()) {
							sendsPerPath = 1 << 30
						}
					}
					_ = once
					good := mc != nil && mc.Parent() == g.Parent() && capacity >= int64(sendsPerPath)
					c.check(good, rule, key, p.instrPos(op.Instr), fmt.Sprintf("channel made by the enclosing call with capacity %d >= sends before return", capacity),
						fmt.Sprintf("unconditional send on a channel of capacity %d whose receiver may already have returned: the goroutine (and the carrier and buffer it references) is retained for ever, once per redial", capacity))
				default:
					c.viol(rule, key, p.instrPos(op.Instr), "unconditional receive in a carrier goroutine: nothing guarantees a sender")
				}
			}
		}
	}
	if n < 3 {
		c.undecided(rule, "goroutine literals of common/turbotunnel", "-", fmt.Sprintf("only %d blocking operations found in goroutine literals (expected the two error sends and the writer's select)", n))
	}
}

func (c *Ctx) checkCopyOnEnqueue(tt []*ssa.Function) {
	p := c.P
	rule := "O-4 copy-on-enqueue, never block"
	isQueue := func(cls string) bool {
		return cls == "QueuePacketConn.recvQueue" || cls == "RedialPacketConn.recvQueue" || cls == "RedialPacketConn.sendQueue" ||
			strings.HasSuffix(cls, "ClientMap).SendQueue") || cls == "clientRecord.SendQueue"
	}
	n := 0
	for _, fn := range tt {
		for _, op := range chanOpsIn(p, fn) {
			if op.Dir != chSend || !isQueue(op.Class) {
				continue
			}
			n++
			key := fmt.Sprintf("%s send on %s", p.FnName(fn), op.Class)
			c.check(op.Mode == "polling", rule, key+" never blocks", p.instrPos(op.Instr), "select with default", "enqueueing can block the caller (KCP's output path or the carrier's reader)")
			// the payload: the sent value itself or field P of a taggedPacket literal
			payload := op.Val
			if al, ok := strip(op.Val).(*ssa.Alloc); ok {
				if v := structLitField(al, "P"); v != nil {
					payload = v
				}
			} else if u, ok := op.Val.(*ssa.UnOp); ok {
				if al, ok := u.X.(*ssa.Alloc); ok {
					if v := structLitField(al, "P"); v != nil {
						payload = v
					}
				}
			}
			ms, _ := strip(payload).(*ssa.MakeSlice)
			owner := fn
			if ms == nil {
				// the payload is a parameter of an unexported helper with one call site (ClientMap.trySend): the
				// slice handed over at that site
				if par, isPar := strip(payload).(*ssa.Parameter); isPar {
					if site := uniqueSite(fn); site != nil {
						for i, fp := range fn.Params {
							if fp == par && i < len(site.Common().Args) {
								ms, _ = strip(site.Common().Args[i]).(*ssa.MakeSlice)
								owner = site.Parent()
							}
						}
					}
				}
			}
			good := ms != nil && ms.Parent() == owner
			why := "the enqueued packet is not a slice allocated by this invocation: it aliases the caller's buffer, which the caller (kcp-go's buffer pool, the carrier read loop) reuses"
			if good {
				// filled by copy
				copied := false
				if ms.Referrers() != nil {
					for _, r := range *ms.Referrers() {
						if ci, ok := r.(ssa.CallInstruction); ok && calleeName(ci) == "builtin.copy" && ci.Common().Args[0] == ssa.Value(ms) {
							copied = true
						}
					}
				}
				if !copied {
					good = false
					why = "the freshly made slice is never filled by copy"
				}
				// length = len(param) or the n returned by ReadFrom
				lenOK := false
				if cc, _, ok := callResult(ms.Len); ok && calleeName(cc) == "builtin.len" {
					if _, isPar := cc.Call.Args[0].(*ssa.Parameter); isPar {
						lenOK = true
					}
				}
				if cc, idx, ok := callResult(ms.Len); ok && idx == 0 && strings.HasSuffix(calleeName(cc), "net.PacketConn).ReadFrom") {
					lenOK = true
				}
				if !lenOK {
					good = false
					why = "the copy's length is not the caller's length (len(p) or the n returned by ReadFrom): packets are truncated or padded"
				}
			}
			c.check(good, rule, key+" enqueues a private copy of the caller's bytes", p.instrPos(op.Instr), "", why)
		}
	}
	if n < 4 {
		c.undecided(rule, "queue sends", "-", fmt.Sprintf("%d sends on packet queues found, expected 4", n))
	}
	// []byte parameters never escape
	for _, name := range []string{"(*QueuePacketConn).QueueIncoming", "(*QueuePacketConn).WriteTo", "(*RedialPacketConn).WriteTo", "(*QueuePacketConn).ReadFrom", "(*RedialPacketConn).ReadFrom"} {
		fn := p.Fn("common/turbotunnel", name)
		if fn == nil {
			c.undecided(rule, "common/turbotunnel."+name, "-", "anchor does not resolve")
			continue
		}
		for _, par := range fn.Params {
			sl, ok := par.Type().Underlying().(*types.Slice)
			if !ok {
				continue
			}
			if b, ok := sl.Elem().Underlying().(*types.Basic); !ok || b.Kind() != types.Byte {
				continue
			}
			esc := ""
			if par.Referrers() != nil {
				for _, r := range *par.Referrers() {
					switch x := r.(type) {
					case *ssa.DebugRef:
					case ssa.CallInstruction:
						n := calleeName(x)
						if n != "builtin.len" && n != "builtin.copy" && n != "builtin.cap" {
							esc = "passed to " + n
						}
					case *ssa.Send:
						esc = "sent on a channel"
					case *ssa.Store:
						esc = "stored"
					case *ssa.Select:
						esc = "sent in a select"
					case *ssa.Slice:
						// p[:n] used for copy only
						if x.Referrers() != nil {
							for _, rr := range *x.Referrers() {
								if ci, ok := rr.(ssa.CallInstruction); !ok || calleeName(ci) != "builtin.copy" {
									esc = "re-sliced and used by " + fmt.Sprintf("%T", rr)
								}
							}
						}
					default:
						esc = fmt.Sprintf("used by %T", r)
					}
				}
			}
			c.check(esc == "", rule, "common/turbotunnel."+name+" does not retain its []byte argument", p.Pos(fn.Pos()), "", "the caller's buffer is "+esc+": the adapter aliases memory the caller reuses")
		}
		if strings.HasSuffix(name, "ReadFrom") {
			okCopy := false
			for _, r := range returnsOf(fn) {
				if cc, _, ok := callResult(r.Results[0]); ok && calleeName(cc) == "builtin.copy" && cc.Call.Args[0] == ssa.Value(fn.Params[1]) {
					okCopy = true
				}
			}
			c.check(okCopy, rule, "common/turbotunnel."+name+" returns copy(p, queued)", p.Pos(fn.Pos()), "", "ReadFrom does not copy the queued packet into the caller's buffer")
		}
	}
}

func (c *Ctx) checkExpiry() {
	p := c.P
	rule := "O-7 expiry shape"
	re := p.Fn("common/turbotunnel", "(*clientMapInner).removeExpired")
	paramOfType := func(fn *ssa.Function, typ string) int {
		idx := -1
		for i, pr := range fn.Params {
			if pr.Type().String() == typ {
				if idx >= 0 {
					return -1
				}
				idx = i
			}
		}
		return idx
	}
	if re == nil {
		// renamed with another parameter order: the one method of clientMapInner that takes a
		// time and a duration and pops from the heap
		var cands []*ssa.Function
		for _, fn := range p.FnsIn("common/turbotunnel") {
			if fn.Signature.Recv() == nil || !strings.HasSuffix(fn.Signature.Recv().Type().String(), "clientMapInner") || len(fn.Params) != 3 {
				continue
			}
			if paramOfType(fn, "time.Time") > 0 && paramOfType(fn, "time.Duration") > 0 && len(callsTo(fn, "container/heap.Pop")) > 0 {
				cands = append(cands, fn)
			}
		}
		if len(cands) == 1 {
			re = cands[0]
		}
	}
	if re == nil || len(re.Params) < 3 || paramOfType(re, "time.Time") < 1 || paramOfType(re, "time.Duration") < 1 {
		c.undecided(rule, "clientMapInner.removeExpired", "-", "anchor does not resolve")
		return
	}
	nowIdx, timeoutIdx := paramOfType(re, "time.Time"), paramOfType(re, "time.Duration")
	now, timeout := re.Params[nowIdx], re.Params[timeoutIdx]
	lastSeenOfRoot := func(v ssa.Value) bool {
		_, f, ok := fieldLoad(v)
		if !ok || f.Name() != "LastSeen" {
			return false
		}
		// base = byAge[0]
		return flows(v, func(w ssa.Value) bool {
			ia, ok := w.(*ssa.IndexAddr)
			if !ok {
				return false
			}
			k, okk := constInt(ia.Index)
			return okk && k == 0
		})
	}
	isSub := func(v ssa.Value) bool {
		cc, _, ok := callResult(v)
		return ok && calleeName(cc) == "(time.Time).Sub" && cc.Call.Args[0] == ssa.Value(now) && lastSeenOfRoot(cc.Call.Args[1])
	}
	isTimeout := func(v ssa.Value) bool { return v == ssa.Value(timeout) }
	// now.Sub(root.LastSeen) >= timeout  (or > timeout), in any source form
	expired := append(cmpEdges(re, ">=", isSub, isTimeout), cmpEdges(re, ">", isSub, isTimeout)...)
	nPop := 0
	for _, ci := range callsTo(re, "container/heap.Pop") {
		nPop++
		path := reachableWithout(re, ci, expired)
		c.check(len(expired) > 0 && path == nil, rule, "removeExpired pops only while now.Sub(oldest.LastSeen) >= timeout", p.instrPos(ci), "unscaled timeout parameter, root of the heap",
			"a record can be popped without having been idle for the full timeout (comparison weakened, scaled, or taken on another record)", p.pathString(path)...)
	}
	if nPop == 0 {
		// removal that bypasses container/heap is reported by the heap-methods rule below; only a
		// removeExpired that removes nothing at all has an unrecognised shape
		direct := 0
		for _, ci := range callsIn(re) {
			if f := staticCallee(ci); f != nil && (f.Name() == "Pop" || f.Name() == "Swap") && f.Signature.Recv() != nil {
				direct++
			}
		}
		if direct == 0 {
			c.undecided(rule, "removeExpired pops", p.Pos(re.Pos()), "no heap.Pop")
		}
	}
	// Less
	if less := p.Fn("common/turbotunnel", "(*clientMapInner).Less"); less != nil && len(less.Params) == 3 {
		ok := false
		for _, r := range returnsOf(less) {
			if cc, _, okc := callResult(r.Results[0]); okc && calleeName(cc) == "(time.Time).Before" {
				idxOf := func(v ssa.Value) ssa.Value {
					var found ssa.Value
					flows(v, func(w ssa.Value) bool {
						if ia, ok := w.(*ssa.IndexAddr); ok {
							found = ia.Index
							return true
						}
						return false
					})
					return found
				}
				_, f0, ok0 := fieldLoad(cc.Call.Args[0])
				_, f1, ok1 := fieldLoad(cc.Call.Args[1])
				if ok0 && ok1 && f0.Name() == "LastSeen" && f1.Name() == "LastSeen" && idxOf(cc.Call.Args[0]) == ssa.Value(less.Params[1]) && idxOf(cc.Call.Args[1]) == ssa.Value(less.Params[2]) {
					ok = true
				}
			}
		}
		c.check(ok, rule, "clientMapInner.Less(i, j) is byAge[i].LastSeen.Before(byAge[j].LastSeen)", p.Pos(less.Pos()), "", "the heap is not ordered oldest-first: removeExpired inspects a record that is not the oldest")
	}
	c.checkHeapMethodsPrivate(rule, "common/turbotunnel", "clientMapInner")
	// sweeper
	if nm := p.Fn("common/turbotunnel", "NewClientMap"); nm != nil {
		okSleep, okPass := false, false
		// the sweep judges idleness against a clock read after the sleep (a reading taken before it is half a
		// timeout stale when the sweep runs: queues are closed a whole sweep late)
		for _, clo := range nm.AnonFuncs {
			var sleep, sweep ssa.CallInstruction
			for _, d := range deepInstrs(clo, 2, func(in ssa.Instruction) bool {
				ci, ok := in.(ssa.CallInstruction)
				return ok && (calleeName(ci) == "time.Sleep" || staticCallee(ci) == re)
			}) {
				if calleeName(d.In.(ssa.CallInstruction)) == "time.Sleep" {
					sleep, _ = d.Top.(ssa.CallInstruction)
				} else {
					sweep = d.In.(ssa.CallInstruction)
				}
			}
			if sleep != nil && sweep != nil {
				nowC, _, okn := callResult(sweep.Common().Args[nowIdx])
				fresh := okn && calleeName(nowC) == "time.Now" && nowC.Parent() == sleep.Parent() && nowC.Block() == sleep.Block() && instrIndex(sleep) < instrIndex(nowC)
				if okn && calleeName(nowC) == "time.Now" && nowC.Parent() == sleep.Parent() && nowC.Block() != sleep.Block() {
					// different blocks: the clock read must not be followed by the sleep before the sweep
					fresh = reachPath(sleep.Block(), nowC.Block(), nil) != nil && !inSameBlockBefore(nowC, sleep)
				}
				c.check(fresh, rule, "the sweeper reads the clock after sleeping, right before the sweep", p.instrPos(sweep), "time.Now() follows time.Sleep in the iteration", "removeExpired is given a time that was not read after the sleep of this iteration: idleness is judged against a stale clock and idle queues are kept for up to another sweep period")
			}
		}
		for _, clo := range nm.AnonFuncs {
			for _, d := range deepInstrs(clo, 2, func(in ssa.Instruction) bool {
				ci, ok := in.(ssa.CallInstruction)
				return ok && (calleeName(ci) == "time.Sleep" || staticCallee(ci) == re)
			}) {
				ci := d.In.(ssa.CallInstruction)
				switch {
				case calleeName(ci) == "time.Sleep":
					if bo, ok := ci.Common().Args[0].(*ssa.BinOp); ok && bo.Op == token.QUO {
						k, _ := constInt(bo.Y)
						if k == 2 && sameValue(bo.X, func(v ssa.Value) bool { return v == ssa.Value(nm.Params[0]) }) {
							okSleep = true
						}
					}
				case staticCallee(ci) == re:
					if sameValue(ci.Common().Args[timeoutIdx], func(v ssa.Value) bool { return v == ssa.Value(nm.Params[0]) }) {
						okPass = true
					}
				}
			}
		}
		c.check(okSleep, rule, "sweeper sleeps timeout/2 between sweeps", p.Pos(nm.Pos()), "", "the sweep period is not half the timeout: idle queues are not discarded within one and a half timeouts")
		c.check(okPass, rule, "sweeper passes the configured timeout to removeExpired", p.Pos(nm.Pos()), "", "removeExpired is given a value other than the configured timeout")
	}
	// the time a record is stamped with is read while the map is locked (a reading taken before waiting for the lock
	// is as old as the wait: the record looks idle that long and is discarded early)
	{
		le := p.Locks()
		n := 0
		for _, fn := range p.FnsIn("common/turbotunnel") {
			for _, ci := range callsIn(fn) {
				if calleeName(ci) != "(*common/turbotunnel.clientMapInner).SendQueue" || fn.Signature.Recv() == nil || !strings.HasSuffix(fn.Signature.Recv().Type().String(), "ClientMap") {
					continue
				}
				n++
				now := ci.Common().Args[2]
				good := false
				flows(now, func(v ssa.Value) bool {
					cc, _, ok := callResult1(strip(v))
					if ok && calleeName(cc) == "time.Now" {
						good = le.Held(cc, "ClientMap.lock") != heldNone
						return true
					}
					return false
				})
				c.check(good, rule, p.FnName(fn)+" stamps LastSeen with a time read under the map lock", p.instrPos(ci), "", "the clock is read before ClientMap.lock is taken: under contention LastSeen is older than the moment the client was seen and its queue is discarded before a full timeout of idleness")
			}
		}
		if n == 0 {
			c.undecided(rule, "ClientMap methods that look a queue up", "-", "no call of clientMapInner.SendQueue from a ClientMap method")
		}
	}
	// SendQueue refreshes LastSeen before Fix / Push
	if sq := p.Fn("common/turbotunnel", "(*clientMapInner).SendQueue"); sq != nil && len(sq.Params) >= 3 {
		lsF := p.Field("common/turbotunnel", "clientRecord", "LastSeen")
		n := 0
		for _, s := range storesToField([]*ssa.Function{sq}, lsF) {
			n++
			okNow := sameValue(s.Val, func(v ssa.Value) bool { return v == ssa.Value(sq.Params[2]) })
			// followed on every path by heap.Fix or heap.Push
			path := escapesOrLoopsWithout(s, func(in ssa.Instruction) bool {
				ci, ok := in.(ssa.CallInstruction)
				return ok && isCallTo(ci, "container/heap.Fix", "container/heap.Push")
			})
			c.check(okNow && path == nil, rule, "SendQueue sets LastSeen = now before restoring the heap order", p.instrPos(s), "", "LastSeen is refreshed after (or without) heap.Fix/heap.Push: the heap root is no longer the oldest record, so expired queues are kept or live ones inspected out of order", p.pathString(path)...)
		}
		if n < 1 {
			c.missingOrMoved(rule, "SendQueue refreshes LastSeen", sq, func(in ssa.Instruction) bool {
				st, ok := in.(*ssa.Store)
				if !ok {
					return false
				}
				_, f, okf := fieldOfAddr(st.Addr)
				return okf && f.Name() == "LastSeen"
			}, "a store to clientRecord.LastSeen", "a client's record is never refreshed: its queue expires while it is in use")
		}
		// ... on every path: no heap.Fix/heap.Push of SendQueue is reached without a LastSeen store before it (the
		// record that is found must be refreshed just as the new one is stamped)
		{
			storeAt := map[*ssa.BasicBlock]int{}
			for _, st := range storesToField([]*ssa.Function{sq}, lsF) {
				if i, seen := storeAt[st.Block()]; !seen || instrIndex(st) < i {
					storeAt[st.Block()] = instrIndex(st)
				}
			}
			for _, ci := range callsTo(sq, "container/heap.Fix", "container/heap.Push") {
				reached := false
				seen := map[*ssa.BasicBlock]bool{}
				var walk func(b *ssa.BasicBlock)
				walk = func(b *ssa.BasicBlock) {
					if seen[b] || reached {
						return
					}
					seen[b] = true
					si, hasStore := storeAt[b]
					if b == ci.Block() && (!hasStore || si > instrIndex(ci)) {
						reached = true
						return
					}
					if hasStore {
						return
					}
					for _, sb := range b.Succs {
						walk(sb)
					}
				}
				if len(sq.Blocks) > 0 {
					walk(sq.Blocks[0])
				}
				c.check(!reached, rule, "SendQueue refreshes LastSeen on the way to "+strings.TrimPrefix(calleeName(ci), "container/"), p.instrPos(ci), "", "the heap is re-ordered for a record whose LastSeen was not set on this path: a client that keeps sending is still expired clientMapTimeout after its first packet, and its session dies with its queue")
			}
		}
		// heap.Fix on the found index
		okFix := false
		for _, ci := range callsTo(sq, "container/heap.Fix") {
			if e, ok := strip(ci.Common().Args[1]).(*ssa.Extract); ok {
				if lk, ok := e.Tuple.(*ssa.Lookup); ok && lk.Index == ssa.Value(sq.Params[1]) {
					okFix = true
				}
			}
		}
		c.check(okFix, rule, "SendQueue fixes the heap at the index found for the address", p.Pos(sq.Pos()), "", "heap.Fix is not applied at byAddr[addr]")
	}
	// every record taken out of the map has its queue closed: by Pop itself, or by each caller of
	// heap.Pop/heap.Remove on the map right after the removal
	if pop := p.Fn("common/turbotunnel", "(*clientMapInner).Pop"); pop != nil {
		ok := false
		for _, op := range chanOpsIn(p, pop) {
			if op.Dir == chClose && op.Class == "clientRecord.SendQueue" {
				ok = true
			}
		}
		where := "in Pop"
		if !ok {
			// caller form
			nSites, good := 0, true
			for _, fn := range p.FnsIn("common/turbotunnel") {
				for _, ci := range callsTo(fn, "container/heap.Pop", "container/heap.Remove") {
					cc, isCall := ci.(*ssa.Call)
					if !isCall || !strings.HasSuffix(ci.Common().Args[0].Type().String(), "clientMapInner") {
						if mi, isMI := ci.Common().Args[0].(*ssa.MakeInterface); !isMI || !strings.HasSuffix(mi.X.Type().String(), "clientMapInner") {
							continue
						}
					}
					nSites++
					closed := false
					if isCall {
						for _, op := range chanOpsIn(p, fn) {
							if op.Dir != chClose || op.Class != "clientRecord.SendQueue" {
								continue
							}
							// the closed queue belongs to the removed record and the close follows on every path
							fromPop := flows(op.Chan, func(v ssa.Value) bool { return v == ssa.Value(cc) })
							if fromPop && escapesOrLoopsWithout(cc, func(in ssa.Instruction) bool { return in == op.Instr }) == nil {
								closed = true
							}
						}
					}
					if !closed {
						good = false
					}
				}
			}
			ok = nSites > 0 && good
			where = fmt.Sprintf("by the %d caller(s) of heap.Pop/heap.Remove", nSites)
		}
		c.check(ok, rule, "the queue of a record removed from the client map is closed", p.Pos(pop.Pos()), where, "a discarded queue is not closed: the carrier's write loop waits on it for ever")
	}
}

func inSameBlockBefore(a, b ssa.Instruction) bool {
	return a.Block() == b.Block() && instrIndex(a) < instrIndex(b)
}

// checkErrorsOnlyAfterClose: ReadFrom/WriteTo of the packet adapters return a
// non-nil error only behind a '<-closed' case (kcp-go treats any error of its
// packet conn as fatal for the session), and test closed before touching a queue.
func (c *Ctx) checkErrorsOnlyAfterClose(types ...string) {
	p := c.P
	for _, typ := range types {
		closedCls := typ + ".closed"
		for _, m := range []string{"ReadFrom", "WriteTo"} {
			fn := p.Fn("common/turbotunnel", "(*"+typ+")."+m)
			if fn == nil {
				c.undecided("O-1 errors only after close", typ+"."+m, "-", "anchor does not resolve")
				continue
			}
			var closedEdges []Edge
			var firstOp *chanOp
			ops := chanOpsIn(p, fn)
			for i := range ops {
				op := &ops[i]
				if op.Dir == chMake {
					continue
				}
				if firstOp == nil || op.Instr.Pos() < firstOp.Instr.Pos() {
					firstOp = op
				}
				if op.Dir == chRecv && op.Class == closedCls && op.Sel != nil {
					if e, ok := selectCaseEdge(op.Sel, op.State); ok {
						closedEdges = append(closedEdges, e)
					}
				}
			}
			ei := errResultIndex(fn.Signature)
			nErr := 0
			bad := false
			for _, r := range returnsOf(fn) {
				if isNilConst(r.Results[ei]) {
					continue
				}
				nErr++
				if path := reachableWithout(fn, r, closedEdges); path != nil {
					bad = true
					c.viol("O-1 errors only after close", typ+"."+m+" returns an error only after '<-closed'", p.instrPos(r), "an error return is reachable without the closed channel having fired: KCP sees a transient carrier fault as a fatal error", p.pathString(path)...)
				}
			}
			if !bad {
				c.check(nErr > 0 && len(closedEdges) > 0, "O-1 errors only after close", typ+"."+m+" returns an error only after '<-closed'", p.Pos(fn.Pos()), fmt.Sprintf("%d error return(s), all behind a closed case", nErr), "no error return / no closed case found")
			}
			// O-6: the first channel operation is a polling test of closed
			c.check(firstOp != nil && firstOp.Class == closedCls && firstOp.Mode == "polling", "O-6 closed means failed", typ+"."+m+" tests closed before touching a queue", p.Pos(fn.Pos()), "", "the operation touches a queue before (or without) a non-blocking test of the closed channel")
		}
	}
}

// checkCloseOncePublication: close(closed) only inside closeOnce.Do of closeWithError and after err.Store; who
// calls closeWithError.
func (c *Ctx) checkCloseOncePublication(tt []*ssa.Function) {
	p := c.P
	// who closes `closed`, who calls closeWithError
	for _, typ := range []string{"RedialPacketConn", "QueuePacketConn"} {
		cwe := p.Fn("common/turbotunnel", "(*"+typ+").closeWithError")
		if cwe == nil {
			c.undecided("O-5 close-once and publication order", typ+".closeWithError", "-", "anchor does not resolve")
			continue
		}
		nClose := 0
		for _, fn := range tt {
			for _, op := range chanOpsIn(p, fn) {
				if op.Dir != chClose || op.Class != typ+".closed" {
					continue
				}
				nClose++
				inOnce := onceClosure(p, fn) && fn.Parent() == cwe
				// err.Store precedes close
				stored := false
				for _, ci := range callsTo(fn, "(*sync/atomic.Value).Store") {
					if _, f, ok := fieldOfAddr(ci.Common().Args[0]); ok && f.Name() == "err" && precedes(ci, op.Instr) {
						stored = true
					}
				}
				c.check(inOnce, "O-5 close-once and publication order", typ+": close(closed) inside closeOnce.Do of closeWithError", p.instrPos(op.Instr), "", "closed is closed outside the once-guarded closure: a second Close panics")
				c.check(stored, "O-5 close-once and publication order", typ+": err.Store precedes close(closed)", p.instrPos(op.Instr), "", "readers load the error after observing closed; storing it after the close makes Load().(error) panic on a nil value")
			}
		}
		if nClose != 1 {
			c.viol("O-5 close-once and publication order", typ+": one close site of closed", p.Pos(cwe.Pos()), fmt.Sprintf("%d close sites", nClose))
		}
		if typ == "RedialPacketConn" {
			for _, ci := range p.realCallers(cwe) {
				caller := ci.Parent()
				switch caller.Name() {
				case "Close":
					c.ok("O-1 errors only after close", "closeWithError called from Close", p.instrPos(ci), "")
				case "dialLoop":
					var dial *ssa.Call
					for _, c2 := range callsIn(caller) {
						if cc, ok := c2.(*ssa.Call); ok {
							if _, f, okf := fieldLoad(cc.Call.Value); okf && f.Name() == "dialContext" {
								dial = cc
							}
						}
					}
					good := dial != nil && len(errEdges(caller, dial, 1, false)) > 0 && reachableWithout(caller, ci, errEdges(caller, dial, 1, false)) == nil
					c.check(good, "O-1 errors only after close", "dialLoop closes the connection only when dialContext failed", p.instrPos(ci), "", "closeWithError is reachable in dialLoop without a dial failure: a carrier fault becomes a fatal error")
				default:
					c.viol("O-1 errors only after close", "closeWithError called from "+p.FnName(caller), p.instrPos(ci), "the connection is closed with an error from a place other than Close and the failed-dial edge")
				}
			}
		}
	}

}

// checkRedialAddress: RedialPacketConn presents one far end to the KCP engine above it, whatever carrier a packet
// arrived on: every successful ReadFrom reports the connection's own remoteAddr. kcp-go's client side keeps the
// address of the first packet and discards packets that report another one.
func (c *Ctx) checkRedialAddress() {
	p := c.P
	rule := "O-11 one far-end address across carriers"
	rf := p.Fn("common/turbotunnel", "(*RedialPacketConn).ReadFrom")
	if rf == nil {
		c.undecided(rule, "RedialPacketConn.ReadFrom", "-", "anchor does not resolve")
		return
	}
	n := 0
	for _, r := range returnsOf(rf) {
		if len(r.Results) != 3 || !isNilConst(strip(retVal(r, 2))) {
			continue
		}
		n++
		_, f, ok := fieldLoad(retVal(r, 1))
		c.check(ok && f.Name() == "remoteAddr", rule, "RedialPacketConn.ReadFrom reports its own remote address", p.instrPos(r), "", "a successful read reports an address other than the connection's remoteAddr field (the carrier's, for example): the KCP client accepts packets from the first address it saw only, so everything received through a later carrier is discarded and the stream stalls after the first proxy replacement")
	}
	if n == 0 {
		c.undecided(rule, "RedialPacketConn.ReadFrom reports its own remote address", p.Pos(rf.Pos()), "no successful return found")
	}
}
