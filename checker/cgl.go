package main

// A light-weight, sound-for-repository-callees call resolution:
//   - static calls: the callee;
//   - interface invokes: every repository method of every repository type whose
//     method set implements the interface (CHA restricted to the repository);
//   - dynamic calls of function values: every repository function or closure of
//     identical signature whose value is taken somewhere in the repository.
// Third-party and standard-library callees are the trusted base of the rules
// that use this (E-PANIC, E-LOCK) and are not followed.

import (
	"go/types"
	"sort"

	"golang.org/x/tools/go/ssa"
)

type cgLite struct {
	p          *Prog
	repoTypes  []types.Type // named repository types and their pointer types
	valueFuncs []*ssa.Function
	cache      map[ssa.CallInstruction][]*ssa.Function
	vta        map[ssa.CallInstruction][]*ssa.Function
}

func (g *cgLite) vtaCallees(ci ssa.CallInstruction) []*ssa.Function {
	if g.vta == nil {
		g.vta = map[ssa.CallInstruction][]*ssa.Function{}
		cg := g.p.CallGraph()
		for _, n := range cg.Nodes {
			if n.Func == nil || !g.p.IsRepoFn(n.Func) {
				continue
			}
			for _, e := range n.Out {
				if e.Site != nil && e.Callee != nil && e.Callee.Func != nil {
					g.vta[e.Site] = append(g.vta[e.Site], e.Callee.Func)
				}
			}
		}
		for k := range g.vta {
			fs := g.vta[k]
			sort.Slice(fs, func(i, j int) bool { return fs[i].String() < fs[j].String() })
		}
	}
	return g.vta[ci]
}

func (p *Prog) cgl() *cgLite {
	if p.cgLite != nil {
		return p.cgLite
	}
	g := &cgLite{p: p, cache: map[ssa.CallInstruction][]*ssa.Function{}}
	for _, ip := range p.Pkgs {
		scope := ip.Types.Scope()
		names := scope.Names()
		sort.Strings(names)
		for _, n := range names {
			if tn, ok := scope.Lookup(n).(*types.TypeName); ok && !tn.IsAlias() {
				if _, isIface := tn.Type().Underlying().(*types.Interface); isIface {
					continue
				}
				g.repoTypes = append(g.repoTypes, tn.Type(), types.NewPointer(tn.Type()))
			}
		}
	}
	// functions used as values
	seen := map[*ssa.Function]bool{}
	for _, fn := range p.fns {
		allInstrs(fn, func(in ssa.Instruction) {
			for _, op := range in.Operands(nil) {
				if op == nil || *op == nil {
					continue
				}
				var f *ssa.Function
				switch v := (*op).(type) {
				case *ssa.Function:
					f = v
				case *ssa.MakeClosure:
					f, _ = v.Fn.(*ssa.Function)
				}
				if f == nil || seen[f] || !p.IsRepoFn(f) {
					continue
				}
				// skip when used in call position of this very instruction
				if ci, ok := in.(ssa.CallInstruction); ok && ci.Common().Value == *op && !ci.Common().IsInvoke() {
					continue
				}
				seen[f] = true
				g.valueFuncs = append(g.valueFuncs, f)
			}
		})
	}
	sort.Slice(g.valueFuncs, func(i, j int) bool { return g.valueFuncs[i].Pos() < g.valueFuncs[j].Pos() })
	p.cgLite = g
	return g
}

// Callees returns the repository functions ci may call.
func (g *cgLite) Callees(ci ssa.CallInstruction) []*ssa.Function {
	if r, ok := g.cache[ci]; ok {
		return r
	}
	var out []*ssa.Function
	c := ci.Common()
	if f := staticCallee(ci); f != nil {
		if g.p.IsRepoFn(f) && f.Blocks != nil {
			out = append(out, f)
		}
	} else if _, isBuiltin := c.Value.(*ssa.Builtin); !isBuiltin {
		// interface invokes and calls of function values: VTA call graph
		// (type-flow based, seeded by CHA), restricted to repository callees.
		for _, f := range g.vtaCallees(ci) {
			if g.p.IsRepoFn(f) && f.Blocks != nil {
				out = append(out, f)
			}
		}
	}
	// de-duplicate
	seen := map[*ssa.Function]bool{}
	var uniq []*ssa.Function
	for _, f := range out {
		if !seen[f] {
			seen[f] = true
			uniq = append(uniq, f)
		}
	}
	g.cache[ci] = uniq
	return uniq
}

func identicalIgnoringRecv(a, b *types.Signature) bool {
	return types.Identical(types.NewSignatureType(nil, nil, nil, a.Params(), a.Results(), a.Variadic()),
		types.NewSignatureType(nil, nil, nil, b.Params(), b.Results(), b.Variadic()))
}

// reachFrom computes the repository functions reachable from the entries
// (calls, go, defer, and closures created in reachable functions), with one
// witness call path per function.
func (g *cgLite) reachFrom(entries []*ssa.Function) (order []*ssa.Function, via map[*ssa.Function]*ssa.Function) {
	via = map[*ssa.Function]*ssa.Function{}
	seen := map[*ssa.Function]bool{}
	var q []*ssa.Function
	push := func(f, from *ssa.Function) {
		if f == nil || seen[f] || f.Blocks == nil {
			return
		}
		seen[f] = true
		via[f] = from
		q = append(q, f)
	}
	for _, e := range entries {
		push(e, nil)
	}
	for len(q) > 0 {
		f := q[0]
		q = q[1:]
		order = append(order, f)
		allInstrs(f, func(in ssa.Instruction) {
			if ci, ok := in.(ssa.CallInstruction); ok {
				for _, callee := range g.Callees(ci) {
					push(callee, f)
				}
			}
			if mc, ok := in.(*ssa.MakeClosure); ok {
				if cf, ok := mc.Fn.(*ssa.Function); ok {
					push(cf, f)
				}
			}
		})
	}
	return
}

// callPath renders the witness path entry -> ... -> f.
func (g *cgLite) callPath(f *ssa.Function, via map[*ssa.Function]*ssa.Function) []string {
	var rev []string
	for x := f; x != nil; x = via[x] {
		rev = append(rev, g.p.FnName(x))
		if len(rev) > 40 {
			break
		}
	}
	for i, j := 0, len(rev)-1; i < j; i, j = i+1, j-1 {
		rev[i], rev[j] = rev[j], rev[i]
	}
	return rev
}
