package main

// undefer.go - a deferred, flag-guarded clean-up made explicit in the helper-inlined view.
//
//	done := false
//	defer func() {
//		if !done {
//			release()
//		}
//	}()
//	... return ... done = true ... return
//
// is the same program (panics aside, which no rule of this checker reasons about) as one that runs
// `if !done { release() }` in front of every return behind the defer statement and at the end of the body.
// In that form the flag is an ordinary local: go/ssa gives it the constant of each path, and the path rules
// (release on every exit, exactly once) read the paths as they read the explicit form.
//
// The pass is deliberately narrow. It rewrites a function only if
//   - it has no results (so no return operand is evaluated before the deferred call),
//   - the defer statement is a top-level statement of the body and the only defer of the function,
//   - the deferred call is a literal without parameters whose body is one `if flag` / `if !flag` without else,
//     and contains no return, defer, go or recover,
//   - flag is a bool declared by a top-level statement in front of the defer, never redeclared in the function,
//     its address is never taken, and every assignment to it stores the literal true or false,
//   - the function has no label and no goto.

import (
	"bytes"
	"go/ast"
	"go/format"
	"go/token"
	"os"
	"path/filepath"
	"sort"
	"strings"
)

// undeferOverlay rewrites every qualifying function of the non-test files under abs (taking a file from the
// overlay when it is there) and returns the number of functions rewritten.
func undeferOverlay(abs string, overlay map[string][]byte) int {
	n := 0
	filepath.Walk(abs, func(path string, info os.FileInfo, err error) error {
		if err != nil {
			return nil
		}
		if info.IsDir() {
			if nm := info.Name(); nm == "vendor" || nm == "testdata" || (strings.HasPrefix(nm, ".") && path != abs) {
				return filepath.SkipDir
			}
			return nil
		}
		if !strings.HasSuffix(path, ".go") || strings.HasSuffix(path, "_test.go") {
			return nil
		}
		src, in := overlay[path]
		if !in {
			var rerr error
			src, rerr = os.ReadFile(path)
			if rerr != nil {
				return nil
			}
		}
		if !bytes.Contains(src, []byte("defer func()")) {
			return nil
		}
		for iter := 0; iter < 20; iter++ {
			fset := token.NewFileSet()
			f, perr := parserParse(fset, path, src)
			if perr != nil {
				return nil
			}
			out, ok := undeferOne(fset, f, src)
			if !ok {
				break
			}
			fm, ferr := format.Source(out)
			if ferr != nil {
				break
			}
			src = fm
			overlay[path] = fm
			n++
		}
		return nil
	})
	return n
}

func boolLit(e ast.Expr) bool {
	id, ok := e.(*ast.Ident)
	return ok && (id.Name == "true" || id.Name == "false")
}

// undeferOne rewrites the first qualifying function of the file.
func undeferOne(fset *token.FileSet, f *ast.File, src []byte) ([]byte, bool) {
	for _, d := range f.Decls {
		fd, ok := d.(*ast.FuncDecl)
		if !ok || fd.Body == nil || (fd.Type.Results != nil && len(fd.Type.Results.List) > 0) {
			continue
		}
		// the function's own statements: not those of nested literals
		var defers []*ast.DeferStmt
		bad := false
		var walkOwn func(n ast.Node, fn func(ast.Node) bool)
		walkOwn = func(n ast.Node, fn func(ast.Node) bool) {
			ast.Inspect(n, func(x ast.Node) bool {
				if x == nil {
					return false
				}
				if _, isLit := x.(*ast.FuncLit); isLit {
					return false
				}
				return fn(x)
			})
		}
		walkOwn(fd.Body, func(x ast.Node) bool {
			switch s := x.(type) {
			case *ast.DeferStmt:
				defers = append(defers, s)
			case *ast.LabeledStmt:
				bad = true
			case *ast.BranchStmt:
				if s.Tok == token.GOTO {
					bad = true
				}
			}
			return true
		})
		if bad || len(defers) != 1 {
			continue
		}
		ds := defers[0]
		idx := -1
		for i, s := range fd.Body.List {
			if s == ast.Stmt(ds) {
				idx = i
			}
		}
		if idx < 0 {
			continue
		}
		lit, ok := ds.Call.Fun.(*ast.FuncLit)
		if !ok || len(ds.Call.Args) != 0 || (lit.Type.Params != nil && len(lit.Type.Params.List) > 0) ||
			(lit.Type.Results != nil && len(lit.Type.Results.List) > 0) || len(lit.Body.List) != 1 {
			continue
		}
		ifs, ok := lit.Body.List[0].(*ast.IfStmt)
		if !ok || ifs.Init != nil || ifs.Else != nil {
			continue
		}
		var flag *ast.Ident
		switch c := ifs.Cond.(type) {
		case *ast.Ident:
			flag = c
		case *ast.UnaryExpr:
			if id, isID := c.X.(*ast.Ident); isID && c.Op == token.NOT {
				flag = id
			}
		}
		if flag == nil || boolLit(flag) {
			continue
		}
		// nothing in the guarded body that depends on running deferred
		ast.Inspect(ifs.Body, func(x ast.Node) bool {
			switch s := x.(type) {
			case *ast.ReturnStmt, *ast.DeferStmt, *ast.GoStmt, *ast.FuncLit:
				bad = true
			case *ast.CallExpr:
				if id, isID := s.Fun.(*ast.Ident); isID && id.Name == "recover" {
					bad = true
				}
			case *ast.AssignStmt:
				for _, l := range s.Lhs {
					if id, isID := l.(*ast.Ident); isID && id.Name == flag.Name {
						bad = true
					}
				}
			}
			return !bad
		})
		if bad {
			continue
		}
		// the flag: one declaration, at top level, in front of the defer; only constant stores; never addressed
		declared := 0
		declaredBefore := false
		for i, s := range fd.Body.List {
			switch st := s.(type) {
			case *ast.AssignStmt:
				if st.Tok == token.DEFINE && len(st.Lhs) == 1 && len(st.Rhs) == 1 {
					if id, isID := st.Lhs[0].(*ast.Ident); isID && id.Name == flag.Name && boolLit(st.Rhs[0]) && i < idx {
						declaredBefore = true
					}
				}
			case *ast.DeclStmt:
				if gd, isGD := st.Decl.(*ast.GenDecl); isGD && gd.Tok == token.VAR && len(gd.Specs) == 1 {
					vs := gd.Specs[0].(*ast.ValueSpec)
					if len(vs.Names) == 1 && vs.Names[0].Name == flag.Name && i < idx {
						tid, isBool := vs.Type.(*ast.Ident)
						if (vs.Type == nil && len(vs.Values) == 1 && boolLit(vs.Values[0])) ||
							(isBool && tid.Name == "bool" && (len(vs.Values) == 0 || (len(vs.Values) == 1 && boolLit(vs.Values[0])))) {
							declaredBefore = true
						}
					}
				}
			}
		}
		if fd.Recv != nil {
			for _, fl := range fd.Recv.List {
				for _, nm := range fl.Names {
					if nm.Name == flag.Name {
						bad = true
					}
				}
			}
		}
		if fd.Type.Params != nil {
			for _, fl := range fd.Type.Params.List {
				for _, nm := range fl.Names {
					if nm.Name == flag.Name {
						bad = true
					}
				}
			}
		}
		ast.Inspect(fd.Body, func(x ast.Node) bool {
			switch s := x.(type) {
			case *ast.AssignStmt:
				for i, l := range s.Lhs {
					id, isID := l.(*ast.Ident)
					if !isID || id.Name != flag.Name {
						continue
					}
					if s.Tok == token.DEFINE {
						declared++
						continue
					}
					if s.Tok != token.ASSIGN || len(s.Lhs) != len(s.Rhs) || !boolLit(s.Rhs[i]) {
						bad = true
					}
				}
			case *ast.ValueSpec:
				for _, nm := range s.Names {
					if nm.Name == flag.Name {
						declared++
					}
				}
			case *ast.UnaryExpr:
				if id, isID := s.X.(*ast.Ident); isID && s.Op == token.AND && id.Name == flag.Name {
					bad = true
				}
			case *ast.RangeStmt:
				for _, e := range []ast.Expr{s.Key, s.Value} {
					if id, isID := e.(*ast.Ident); isID && id.Name == flag.Name {
						bad = true
					}
				}
			case *ast.IncDecStmt:
				if id, isID := s.X.(*ast.Ident); isID && id.Name == flag.Name {
					bad = true
				}
			case *ast.FuncLit:
				for _, fl := range s.Type.Params.List {
					for _, nm := range fl.Names {
						if nm.Name == flag.Name {
							bad = true
						}
					}
				}
			}
			return !bad
		})
		if bad || !declaredBefore || declared != 1 {
			continue
		}
		// rewrite: back to front so that offsets stay valid
		ifText := nodeText(fset, src, ifs)
		type edit struct {
			from, to token.Pos
			repl     string
		}
		var edits []edit
		walkOwn(fd.Body, func(x ast.Node) bool {
			if r, isRet := x.(*ast.ReturnStmt); isRet && r.Pos() > ds.End() {
				edits = append(edits, edit{r.Pos(), r.End(), "{\n" + ifText + "\nreturn\n}"})
			}
			return true
		})
		last := fd.Body.List[len(fd.Body.List)-1]
		if _, isRet := last.(*ast.ReturnStmt); !isRet {
			edits = append(edits, edit{fd.Body.Rbrace, fd.Body.Rbrace, "\n" + ifText + "\n"})
		}
		edits = append(edits, edit{ds.Pos(), ds.End(), ""})
		sort.Slice(edits, func(i, j int) bool { return edits[i].from > edits[j].from })
		out := src
		for _, e := range edits {
			out = spliceNode(fset, out, e.from, e.to, e.repl)
		}
		return out, true
	}
	return nil, false
}
