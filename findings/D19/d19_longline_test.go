package sinkcluster

// D19: ClusterCounter.Count reads the journal with a default bufio.Scanner
// (64 KiB line limit) and never consults Scanner.Err(): a chunk whose sketch
// encodes to a longer line makes the scan stop there, and Count reports the
// chunks seen so far with a nil error. Copy into
// common/ipsetsink/sinkcluster/ and run: go test -run TestD19 .

import (
	"bytes"
	"fmt"
	"testing"
	"time"

	"git.torproject.org/pluggable-transports/snowflake.git/v2/common/ipsetsink"
)

type d19Buf struct{ bytes.Buffer }

func (d *d19Buf) Sync() error { return nil }

func TestD19LongJournalLine(t *testing.T) {
	buf := &d19Buf{}
	sink := ipsetsink.NewIPSetSink("key")
	w := NewClusterWriter(buf, time.Hour, sink)
	start := time.Now().Add(-time.Minute)
	const n = 40000
	for i := 0; i < n; i++ {
		w.AddIPToSet(fmt.Sprintf("10.%d.%d.%d", i>>16, (i>>8)&255, i&255))
	}
	w.WriteIPSetToDisk()
	t.Logf("journal line length: %d bytes", buf.Len())
	res, err := NewClusterCounter(start, time.Now().Add(time.Minute)).Count(bytes.NewReader(buf.Bytes()))
	if err != nil {
		t.Logf("Count reported an error (acceptable): %v", err)
		return
	}
	if res.ChunkIncluded != 1 || res.Sum < n*9/10 {
		t.Fatalf("Count returned Sum=%d ChunkIncluded=%d with a nil error for a journal holding one chunk of %d distinct addresses", res.Sum, res.ChunkIncluded, n)
	}
}
