// Demonstrations for findings D7-D9 (property C15). Not part of any registered
// check. Copy into /repo/client/lib/ (package snowflake_client) and run:
//   go test -mod=readonly -ldflags=-checklinkname=0 -run 'TestD[789]' -count=1 ./client/lib/
package snowflake_client

import (
	"testing"
	"time"

	"github.com/pion/webrtc/v3"
)

type d7Tongue struct{ max int }

func (d d7Tongue) Catch() (*WebRTCPeer, error) {
	c := &WebRTCPeer{}
	c.closed = make(chan struct{})
	return c, nil
}
func (d d7Tongue) GetMax() int { return d.max }

// D7: ending twice (SnowflakeConn.Close called twice) must not panic.
func TestD7EndTwice(t *testing.T) {
	p, _ := NewPeers(d7Tongue{1})
	p.End()
	defer func() {
		if r := recover(); r != nil {
			t.Fatalf("second End panicked: %v", r)
		}
	}()
	p.End()
}

// D8: spare peers that closed on their own stay queued in snowflakeChan; once
// it is full, Collect parks holding collectLock and End never returns.
func TestD8EndWhileCollectParked(t *testing.T) {
	p, _ := NewPeers(d7Tongue{2})
	for k := 0; k < 2; k++ { // fill the hand-over queue with peers that then go stale
		c, err := p.Collect()
		if err != nil {
			t.Fatal(err)
		}
		c.Close()
	}
	go p.Collect() // third peer: queue full, nobody pops
	time.Sleep(200 * time.Millisecond)
	done := make(chan struct{})
	go func() { p.End(); close(done) }()
	select {
	case <-done:
	case <-time.After(3 * time.Second):
		t.Fatal("End blocked for ever behind a Collect parked on the full snowflake queue")
	}
}

// D9: an ICE configuration that pion rejects must be reported, not crash.
func TestD9InvalidICEConfiguration(t *testing.T) {
	defer func() {
		if r := recover(); r != nil {
			t.Fatalf("panic: %v", r)
		}
	}()
	config := &webrtc.Configuration{ICEServers: []webrtc.ICEServer{{URLs: []string{"bogus"}}}}
	if _, err := NewWebRTCPeerWithEvents(config, nil, nil); err == nil {
		t.Fatal("expected an error")
	}
}
