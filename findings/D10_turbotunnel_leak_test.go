// Demonstration for finding D10 (property C17). Not part of any registered check.
// Copy into /repo/common/turbotunnel/ and run:
//   go test -mod=readonly -run TestD10ExchangeLeak -count=1 ./common/turbotunnel/
package turbotunnel

import (
	"context"
	"errors"
	"net"
	"runtime"
	"testing"
	"time"
)

// failingWriteConn fails every WriteTo; ReadFrom blocks until Close.
type failingWriteConn struct{ closed chan struct{} }

func (c *failingWriteConn) ReadFrom(p []byte) (int, net.Addr, error) {
	<-c.closed
	return 0, nil, errors.New("closed")
}
func (c *failingWriteConn) WriteTo(p []byte, a net.Addr) (int, error) { return 0, errors.New("cut") }
func (c *failingWriteConn) Close() error                              { close(c.closed); return nil }
func (c *failingWriteConn) LocalAddr() net.Addr                       { return nil }
func (c *failingWriteConn) SetDeadline(time.Time) error               { return nil }
func (c *failingWriteConn) SetReadDeadline(time.Time) error           { return nil }
func (c *failingWriteConn) SetWriteDeadline(time.Time) error          { return nil }

type d10Addr struct{}

func (d10Addr) Network() string { return "d10" }
func (d10Addr) String() string  { return "d10" }

func TestD10ExchangeLeak(t *testing.T) {
	const redials = 50
	n := 0
	stop := errors.New("enough")
	var c *RedialPacketConn
	c = NewRedialPacketConn(d10Addr{}, d10Addr{}, func(ctx context.Context) (net.PacketConn, error) {
		n++
		if n > redials {
			return nil, stop
		}
		return &failingWriteConn{closed: make(chan struct{})}, nil
	})
	before := runtime.NumGoroutine()
	for {
		if _, err := c.WriteTo([]byte("x"), nil); err != nil {
			break // closed by the final dial failure
		}
		time.Sleep(time.Millisecond)
	}
	time.Sleep(200 * time.Millisecond)
	if leaked := runtime.NumGoroutine() - before; leaked > 2 {
		t.Fatalf("%d goroutines retained after %d redials", leaked, redials)
	}
}
