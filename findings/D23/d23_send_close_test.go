package turbotunnel

// Demonstration for D23 (property C17/C20): QueuePacketConn.WriteTo obtains the
// client's send queue under the ClientMap lock, releases the lock and then sends,
// while the expiry goroutine closes the queue of an expired client under that
// lock. Nothing orders the send and the close: the race detector reports it, and
// a send that comes second panics with "send on closed channel".
//
// Run from the repository root:
//   cp /verif/findings/D23/d23_send_close_test.go common/turbotunnel/
//   go test -race -count=1 -run TestD23 ./common/turbotunnel/
//   rm common/turbotunnel/d23_send_close_test.go
// Before the fix: DATA RACE (closechan in clientMapInner.Pop / chansend in
// QueuePacketConn.WriteTo), often a panic. After the fix: passes.

import (
	"sync"
	"testing"
	"time"
)

type d23Addr string

func (a d23Addr) Network() string { return "d23" }
func (a d23Addr) String() string  { return string(a) }

func TestD23SendDoesNotRaceWithExpiry(t *testing.T) {
	// a short client timeout makes the expiry sweep frequent; the server uses one minute, which only makes the window rarer
	c := NewQueuePacketConn(d23Addr("local"), 200*time.Microsecond)
	defer c.Close()
	var wg sync.WaitGroup
	stop := time.Now().Add(2 * time.Second)
	for g := 0; g < 8; g++ {
		wg.Add(1)
		go func(g int) {
			defer wg.Done()
			addr := d23Addr(string(rune('a' + g)))
			for time.Now().Before(stop) {
				if _, err := c.WriteTo([]byte("packet"), addr); err != nil {
					t.Errorf("WriteTo: %v", err)
					return
				}
				// let the record expire now and then
				time.Sleep(time.Duration(g*50) * time.Microsecond)
			}
		}(g)
	}
	wg.Wait()
}
