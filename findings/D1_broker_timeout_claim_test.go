// Demonstration for finding D1 (property C04). Not part of any registered check.
// Copy into /repo/broker/ (package main) and run:
//   go test -mod=readonly -run TestD1TimeoutClaimRace -count=1 ./broker/
// On the unfixed tree the client's send of its offer blocks for ever (test fails
// after 3 s of grace); with the fix the offer is forwarded to the poller.
package main

import (
	"container/heap"
	"testing"
	"time"
)

func TestD1TimeoutClaimRace(t *testing.T) {
	ctx := NewBrokerContext(NullLogger())
	go ctx.Broker()
	got := make(chan *ClientOffer, 1)
	go func() { got <- ctx.RequestOffer("d1", "standalone", NATUnrestricted, 0) }()
	// Just before the proxy timeout fires, take the matching lock the way
	// matchSnowflake does, and keep it until the timer has fired.
	time.Sleep(time.Second*ProxyTimeout - 300*time.Millisecond)
	ctx.snowflakeLock.Lock()
	time.Sleep(600 * time.Millisecond) // the per-poll goroutine is now parked on the lock
	s := heap.Pop(ctx.snowflakes).(*Snowflake)
	ctx.snowflakeLock.Unlock()
	sent := make(chan struct{})
	go func() { s.offerChannel <- &ClientOffer{sdp: []byte("offer")}; close(sent) }()
	select {
	case <-sent:
	case <-time.After(3 * time.Second):
		t.Fatal("client blocked for ever sending its offer to a claimed snowflake")
	}
	select {
	case o := <-got:
		if o == nil || string(o.sdp) != "offer" {
			t.Fatalf("poller got %v", o)
		}
	case <-time.After(3 * time.Second):
		t.Fatal("proxy poll never answered")
	}
}
