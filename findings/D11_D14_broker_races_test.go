// Demonstrations for findings D11-D14 (properties C19/C20). Not part of any
// registered check. Copy into /repo/broker/ (package main) and run:
//   go test -mod=readonly -race -run 'TestD1[1-4]' -count=1 ./broker/
// Each test fails with "DATA RACE" (and D11 also with a wrong rounded value) on
// the unfixed tree and passes with the fixes.
package main

import (
	"sync"
	"testing"

	"git.torproject.org/pluggable-transports/snowflake.git/v2/common/messages"
	"github.com/prometheus/client_golang/prometheus"
	dto "github.com/prometheus/client_model/go"
)

func TestD11RoundedCounter(t *testing.T) {
	for round := 0; round < 200; round++ {
		v := NewRoundedCounterVec(prometheus.CounterOpts{Name: "x"}, []string{"a"})
		c := v.With(prometheus.Labels{"a": "b"})
		var wg sync.WaitGroup
		const n = 16
		for k := 0; k < n; k++ {
			wg.Add(1)
			go func() { defer wg.Done(); c.Inc() }()
		}
		wg.Add(1)
		go func() { defer wg.Done(); var m dto.Metric; c.Write(&m) }()
		wg.Wait()
		var m dto.Metric
		c.Write(&m)
		if got := m.Counter.GetValue(); got != 16 {
			t.Fatalf("round %d: %d events published as %v, want 16", round, n, got)
		}
	}
}

func TestD12RoundtripEstimate(t *testing.T) {
	ctx := NewBrokerContext(NullLogger())
	i := &IPC{ctx}
	var wg sync.WaitGroup
	for k := 0; k < 4; k++ {
		s := ctx.AddSnowflake(string(rune('a'+k)), "standalone", NATUnrestricted, 0)
		go func() { <-s.offerChannel; s.answerChannel <- "answer" }()
	}
	for k := 0; k < 4; k++ {
		wg.Add(1)
		go func() {
			defer wg.Done()
			var resp []byte
			i.ClientOffers(messages.Arg{Body: []byte("1.0\n{\"offer\":\"o\",\"nat\":\"unknown\"}")}, &resp)
		}()
	}
	wg.Wait()
}

func TestD13ZeroMetrics(t *testing.T) {
	ctx := NewBrokerContext(NullLogger())
	var wg sync.WaitGroup
	wg.Add(2)
	go func() { defer wg.Done(); ctx.metrics.zeroMetrics() }()
	go func() {
		defer wg.Done()
		ctx.metrics.lock.Lock()
		ctx.metrics.proxyIdleCount++
		ctx.metrics.UpdateCountryStats("1.2.3.4", "standalone", NATUnknown)
		ctx.metrics.lock.Unlock()
	}()
	wg.Wait()
}

func TestD14GeoipReload(t *testing.T) {
	ctx := NewBrokerContext(NullLogger())
	var wg sync.WaitGroup
	wg.Add(2)
	go func() { defer wg.Done(); ctx.metrics.LoadGeoipDatabases("test_geoip", "test_geoip6") }()
	go func() {
		defer wg.Done()
		ctx.metrics.lock.Lock()
		ctx.metrics.UpdateCountryStats("1.2.3.4", "standalone", NATUnknown)
		ctx.metrics.lock.Unlock()
	}()
	wg.Wait()
}
