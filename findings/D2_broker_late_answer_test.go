// Demonstration for finding D2 (property C04). Not part of any registered check.
// Copy into /repo/broker/ (package main) and run:
//   go test -mod=readonly -run TestD2LateAnswer -count=1 ./broker/
// An answer that arrives after the client stopped waiting but before it
// deregistered the snowflake must not block the /answer request for ever.
package main

import (
	"testing"
	"time"

	"git.torproject.org/pluggable-transports/snowflake.git/v2/common/messages"
)

func TestD2LateAnswer(t *testing.T) {
	ctx := NewBrokerContext(NullLogger())
	i := &IPC{ctx}
	// A registered snowflake whose client is no longer receiving (it is
	// between its timeout and its cleanup under snowflakeLock).
	ctx.AddSnowflake("d2", "standalone", NATUnrestricted, 0)
	done := make(chan error, 1)
	go func() {
		var resp []byte
		done <- i.ProxyAnswers(messages.Arg{Body: []byte(`{"Version":"1.0","Sid":"d2","Answer":"late"}`)}, &resp)
	}()
	select {
	case err := <-done:
		if err != nil {
			t.Fatal(err)
		}
	case <-time.After(3 * time.Second):
		t.Fatal("/answer request blocked for ever on a client that stopped waiting")
	}
}
