// Demonstrations for findings D15-D17 (property C20). Not part of any registered
// check. Copy into /repo/proxy/lib/ (package snowflake_proxy) and run:
//   go test -mod=readonly -ldflags=-checklinkname=0 -race -run 'TestD1[567]' -count=1 ./proxy/lib/
package snowflake_proxy

import (
	"io/ioutil"
	"sync"
	"testing"
	"time"

	"git.torproject.org/pluggable-transports/snowflake.git/v2/common/event"
)

func TestD15TokensCount(t *testing.T) {
	tk := newTokens(4)
	var wg sync.WaitGroup
	wg.Add(2)
	go func() { defer wg.Done(); for k := 0; k < 100; k++ { tk.get(); tk.ret() } }()
	go func() { defer wg.Done(); for k := 0; k < 100; k++ { tk.count() } }()
	wg.Wait()
}

func TestD16BytesSyncLogger(t *testing.T) {
	b := newBytesSyncLogger()
	var wg sync.WaitGroup
	wg.Add(2)
	go func() { defer wg.Done(); for k := 0; k < 100; k++ { b.AddInbound(1); b.AddOutbound(1) } }()
	go func() { defer wg.Done(); for k := 0; k < 100; k++ { b.GetStat(); b.ThroughputSummary() } }()
	wg.Wait()
}

func TestD17EventLogger(t *testing.T) {
	el := NewProxyEventLogger(time.Millisecond, ioutil.Discard)
	for k := 0; k < 200; k++ {
		el.OnNewSnowflakeEvent(event.EventOnProxyConnectionOver{InboundTraffic: 1, OutboundTraffic: 1})
		time.Sleep(100 * time.Microsecond)
	}
}
