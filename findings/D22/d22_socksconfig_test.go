package main

// D22: socksAcceptLoop's per-connection goroutines all capture the one `config`
// parameter and assign the SOCKS arguments of their connection to its fields:
// concurrent connections race on it, and the arguments of one connection stay
// in force for every later connection. Copy into client/ and run:
//   go test -race -ldflags=-checklinkname=0 -run TestD22 .

import (
	"io"
	"net"
	"sync"
	"testing"
	"time"

	pt "git.torproject.org/pluggable-transports/goptlib.git"
	sf "git.torproject.org/pluggable-transports/snowflake.git/v2/client/lib"
)

func d22Socks(t *testing.T, addr, args string) net.Conn {
	c, err := net.Dial("tcp", addr)
	if err != nil {
		t.Fatal(err)
	}
	c.Write([]byte{5, 1, 2})
	buf := make([]byte, 2)
	io.ReadFull(c, buf)
	auth := append([]byte{1, byte(len(args))}, args...)
	auth = append(auth, 1, 0)
	c.Write(auth)
	io.ReadFull(c, buf)
	c.Write([]byte{5, 1, 0, 1, 0, 0, 3, 0, 0, 1})
	return c
}

func TestD22SharedConfig(t *testing.T) {
	ln, err := pt.ListenSocks("tcp", "127.0.0.1:0")
	if err != nil {
		t.Fatal(err)
	}
	shutdown := make(chan struct{})
	var wg sync.WaitGroup
	base := sf.ClientConfig{BrokerURL: "http://127.0.0.1:1/", Max: 1}
	go socksAcceptLoop(ln, base, shutdown, &wg)
	var conns []net.Conn
	for i := 0; i < 4; i++ {
		conns = append(conns, d22Socks(t, ln.Addr().String(), "front=f"+string(rune('a'+i))+".example;url=http://127.0.0.1:1/"))
	}
	time.Sleep(500 * time.Millisecond)
	close(shutdown)
	for _, c := range conns {
		c.Close()
	}
	wg.Wait()
}
