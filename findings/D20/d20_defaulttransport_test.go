package snowflake_client

// D20: createBrokerTransport does not copy http.DefaultTransport (despite its
// comment): every new client transport - the PT client creates one per SOCKS
// connection, each in its own goroutine - writes Proxy and
// ResponseHeaderTimeout of the process-wide transport while broker exchanges
// of earlier connections read them inside RoundTrip. Copy into client/lib/ and
// run: go test -race -ldflags=-checklinkname=0 -run TestD20 .

import (
	"net/http"
	"net/http/httptest"
	"sync"
	"testing"
)

func TestD20DefaultTransportShared(t *testing.T) {
	first := createBrokerTransport()
	if first == http.RoundTripper(http.DefaultTransport) {
		t.Errorf("createBrokerTransport returns http.DefaultTransport itself, not a copy")
	}
	srv := httptest.NewServer(http.HandlerFunc(func(w http.ResponseWriter, r *http.Request) { w.WriteHeader(200) }))
	defer srv.Close()
	var wg sync.WaitGroup
	wg.Add(2)
	go func() {
		defer wg.Done()
		for i := 0; i < 50; i++ {
			req, _ := http.NewRequest("GET", srv.URL, nil)
			if resp, err := first.RoundTrip(req); err == nil {
				resp.Body.Close()
			}
		}
	}()
	go func() {
		defer wg.Done()
		for i := 0; i < 50; i++ {
			createBrokerTransport() // a second SOCKS connection arrives
		}
	}()
	wg.Wait()
}
