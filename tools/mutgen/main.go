// mutgen lists mechanical single-statement mutants of the repository's non-test sources (statement deleted,
// condition negated, early exit dropped) as JSON lines; tools/mut_matrix.sh applies each to a scratch worktree and
// runs the checks. It is a gap finder for the rule set (which statements does no rule depend on?), not a check.
package main

import (
	"encoding/json"
	"fmt"
	"go/ast"
	"go/parser"
	"go/token"
	"os"
	"path/filepath"
	"strings"
)

type mutant struct {
	ID    string `json:"id"`
	File  string `json:"file"`
	Line  int    `json:"line"`
	Func  string `json:"func"`
	Kind  string `json:"kind"`
	Start int    `json:"start"`
	End   int    `json:"end"`
	Repl  string `json:"repl"`
	Orig  string `json:"orig"`
}

func main() {
	root := os.Args[1]
	dirs := os.Args[2:]
	enc := json.NewEncoder(os.Stdout)
	n := 0
	for _, d := range dirs {
		files, _ := filepath.Glob(filepath.Join(root, d, "*.go"))
		for _, fn := range files {
			if strings.HasSuffix(fn, "_test.go") {
				continue
			}
			src, err := os.ReadFile(fn)
			if err != nil {
				continue
			}
			fset := token.NewFileSet()
			f, err := parser.ParseFile(fset, fn, src, 0)
			if err != nil {
				continue
			}
			rel, _ := filepath.Rel(root, fn)
			off := func(p token.Pos) int { return fset.Position(p).Offset }
			text := func(n ast.Node) string { return string(src[off(n.Pos()):off(n.End())]) }
			for _, decl := range f.Decls {
				fd, ok := decl.(*ast.FuncDecl)
				if !ok || fd.Body == nil {
					continue
				}
				fname := fd.Name.Name
				if fd.Recv != nil && len(fd.Recv.List) == 1 {
					fname = strings.TrimPrefix(text(fd.Recv.List[0].Type), "*") + "." + fname
				}
				emit := func(kind string, node ast.Node, a, b int, repl string) {
					o := text(node)
					if len(o) > 160 {
						o = o[:160] + "..."
					}
					n++
					enc.Encode(mutant{ID: fmt.Sprintf("m%04d", n), File: rel, Line: fset.Position(node.Pos()).Line, Func: fname, Kind: kind, Start: a, End: b, Repl: repl, Orig: strings.ReplaceAll(o, "\n", " ")})
				}
				isLog := func(s string) bool {
					return strings.HasPrefix(s, "log.") || strings.HasPrefix(s, "fmt.Print") || strings.HasPrefix(s, "fmt.Fprint")
				}
				var depth func(list []ast.Stmt, inBranch bool)
				depth = nil
				ast.Inspect(fd.Body, func(m ast.Node) bool {
					switch s := m.(type) {
					case *ast.ExprStmt:
						if !isLog(text(s)) {
							emit("DEL", s, off(s.Pos()), off(s.End()), "")
						}
					case *ast.AssignStmt:
						if s.Tok != token.DEFINE {
							emit("DEL", s, off(s.Pos()), off(s.End()), "")
						}
					case *ast.IncDecStmt, *ast.SendStmt, *ast.DeferStmt, *ast.GoStmt:
						emit("DEL", s.(ast.Stmt), off(s.Pos()), off(s.End()), "")
					case *ast.IfStmt:
						emit("NEG", s.Cond, off(s.Cond.Pos()), off(s.Cond.End()), "!("+text(s.Cond)+")")
						// an early exit at the end of the then-branch dropped
						if len(s.Body.List) > 0 {
							last := s.Body.List[len(s.Body.List)-1]
							switch last.(type) {
							case *ast.ReturnStmt, *ast.BranchStmt:
								emit("NOEXIT", last, off(last.Pos()), off(last.End()), "")
							}
						}
					}
					return true
				})
				_ = depth
			}
		}
	}
}
