#!/bin/bash
# tools/process_round.sh <seedroot> Cxx : verify the three seeds of a property produced in <seedroot>/Cxx/out/{1,2,3}
# (build, pinned packages, demonstration both ways) and run the property's own check and all checks on each
ROOT=$1; P=$2
for K in 1 2 3; do
  [ -f $ROOT/$P/out/$K/patch.diff ] || { echo "$P/$K NO_PATCH"; continue; }
  SEEDROOT=$ROOT /verif/tools/verify_seed.sh $P $K
  echo "--- static: $P/$K: $(python3 -c "import json;print(json.load(open('$ROOT/$P/out/$K/meta.json'))['summary'][:160])" 2>/dev/null)"
  own=$(WT=/tmp/wt_round_$P /verif/tools/try_seed.sh $ROOT/$P/out/$K $P | grep -cE "VIOLATION \[")
  ownb=$(WT=/tmp/wt_round_$P /verif/tools/try_seed.sh $ROOT/$P/out/$K $P | grep -cE "CHECK-BROKEN")
  echo "OWN $P/$K violations=$own broken=$ownb"
  WT=/tmp/wt_round_$P WIDTH=${WIDTH:-220} /verif/tools/try_seed.sh $ROOT/$P/out/$K all | grep -E "VIOLATION \[|UNDECIDED|CHECK-BROKEN" | head -6
done
git -C /repo worktree remove --force /tmp/wt_round_$P 2>/dev/null
