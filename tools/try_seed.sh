#!/bin/sh
# tools/try_seed.sh <seed-dir> <prop|all>  -- apply <seed-dir>/patch.diff to a scratch worktree and run the check(s) there
set -u
SEED=$1; PROP=${2:-all}
WT=${WT:-/tmp/wt_try}
cd /verif
[ -d $WT ] || git -C /repo worktree add -q --detach $WT HEAD
git -C $WT checkout -q --detach "$(git -C /repo rev-parse HEAD)" 2>/dev/null
git -C $WT checkout -q -- . ; git -C $WT clean -fdq
if ! git -C $WT apply "$SEED/patch.diff"; then echo "PATCH DOES NOT APPLY"; exit 3; fi
${BIN:-./bin/sfcheck} -repo $WT -prop "$PROP" -out /tmp/vout_try 2>&1 | grep -E "^   (VIOLATION|UNDECIDED)|^== .*violations=|CHECK-BROKEN|^PASS" | cut -c1-${WIDTH:-300}
git -C $WT checkout -q -- . ; git -C $WT clean -fdq
