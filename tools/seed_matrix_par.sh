#!/bin/bash
# tools/seed_matrix_par.sh <seeds-root> <shards> <outfile> -- seed_matrix.sh run in parallel shards, each with its own scratch worktree
ROOT=${1:-/verif/seeded}; N=${2:-4}; OUT=${3:-/tmp/matrix_par.txt}
cd /verif
ids=($(ls -d $ROOT/C*/ 2>/dev/null | sort))
for s in $(seq 0 $((N-1))); do
 (
  WT=/tmp/wt_matrix_$s
  [ -d $WT ] || git -C /repo worktree add -q --detach $WT HEAD
  git -C $WT checkout -q --detach "$(git -C /repo rev-parse HEAD)" 2>/dev/null
  i=0
  for d in "${ids[@]}"; do
    i=$((i+1)); [ $((i % N)) -eq $s ] || continue
    id=$(basename $d); [ -f $d/patch.diff ] || continue
    git -C $WT checkout -q -- . ; git -C $WT clean -fdq
    if ! git -C $WT apply $d/patch.diff 2>/dev/null; then echo "$id APPLY_FAIL"; continue; fi
    out=$(${BIN:-./bin/sfcheck} -repo $WT -prop all -out /tmp/vout_matrix_$s 2>&1)
    caught=$(echo "$out" | grep -E "^VIOLATION property=" | sed 's/VIOLATION property=\([A-Z0-9]*\).*/\1/' | sort -u | tr '\n' ' ')
    broken=$(echo "$out" | grep -E "^CHECK-BROKEN property=" | sed 's/CHECK-BROKEN property=\([A-Z0-9]*\).*/\1/' | sort -u | tr '\n' ' ')
    echo "$id caught_by=[$caught] broken=[$broken]"
  done > $OUT.$s
  git -C $WT checkout -q -- . ; git -C $WT clean -fdq
 ) &
done
wait
cat $OUT.* | sort > $OUT; rm -f $OUT.*
echo done-seeds >> $OUT
