#!/bin/bash
# tools/process_r2.sh Cxx : verify the three round-2 seeds of a property and run the property's check (and all checks) on each
P=$1
for K in 1 2 3; do
  SEEDROOT=/tmp/seed2 /verif/tools/verify_seed.sh $P $K
  echo "--- static: $P r2/$K: $(python3 -c "import json;print(json.load(open('/tmp/seed2/$P/out/$K/meta.json'))['summary'][:140])" 2>/dev/null)"
  WT=/tmp/wt_r2_$P WIDTH=${WIDTH:-220} /verif/tools/try_seed.sh /tmp/seed2/$P/out/$K all | grep -E "VIOLATION \[|UNDECIDED|CHECK-BROKEN|^PASS" | grep -v "^PASS" | head -6
done
git -C /repo worktree remove --force /tmp/wt_r2_$P 2>/dev/null
