#!/bin/bash
for K in 1 2 3; do /verif/tools/verify_seed.sh $1 $K; done
