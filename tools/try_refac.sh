#!/bin/sh
# tools/try_refac.sh <group/k> <prop|all> : apply one refactoring patch to a scratch worktree and run the dev binary
WT=/tmp/wt_dev; BIN=${BIN:-/verif/bin/sfcheck.dev}
[ -d $WT ] || git -C /repo worktree add -q --detach $WT HEAD
git -C $WT checkout -q -- . ; git -C $WT clean -fdq
if [ "$1" != "none" ]; then git -C $WT apply /verif/refactorings/$1/patch.diff || exit 3; fi
$BIN -repo $WT -prop "${2:-all}" -out /tmp/vout_dev 2>&1 | grep -E "^   (VIOLATION|UNDECIDED)|CHECK-BROKEN|^PASS" | cut -c1-${WIDTH:-300}
git -C $WT checkout -q -- . ; git -C $WT clean -fdq
