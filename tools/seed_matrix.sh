#!/bin/bash
# tools/seed_matrix.sh <seeds-root>  -- run every property check against every seeded change (scratch worktree), print a matrix
ROOT=${1:-/verif/seeded}
WT=/tmp/wt_matrix
cd /verif
[ -d $WT ] || git -C /repo worktree add -q --detach $WT HEAD
git -C $WT checkout -q --detach "$(git -C /repo rev-parse HEAD)" 2>/dev/null
for d in $(ls -d $ROOT/C*/ 2>/dev/null | sort); do
  id=$(basename $d)
  [ -f $d/patch.diff ] || continue
  git -C $WT checkout -q -- . ; git -C $WT clean -fdq
  if ! git -C $WT apply $d/patch.diff 2>/dev/null; then echo "$id APPLY_FAIL"; continue; fi
  out=$(${BIN:-./bin/sfcheck} -repo $WT -prop all -out /tmp/vout_matrix 2>&1)
  caught=$(echo "$out" | grep -E "^VIOLATION property=" | sed 's/VIOLATION property=\([A-Z0-9]*\).*/\1/' | sort -u | tr '\n' ' ')
  broken=$(echo "$out" | grep -E "^CHECK-BROKEN property=" | sed 's/CHECK-BROKEN property=\([A-Z0-9]*\).*/\1/' | sort -u | tr '\n' ' ')
  echo "$id caught_by=[$caught] broken=[$broken]"
done
git -C $WT checkout -q -- . ; git -C $WT clean -fdq
