#!/bin/bash
# tools/verify_seed.sh <Cxx> <k>  -- confirm a seeded change in the agent's scratch worktree /tmp/seed/Cxx:
#   patch applies, builds, pinned tests of touched+broker packages pass, demo fails with the patch and passes without.
P=$1; K=$2
WT=${SEEDROOT:-/tmp/seed}/$P; D=$WT/out/$K
export GOFLAGS=-mod=readonly GOPROXY=off GOSUMDB=off GOTOOLCHAIN=local
cd $WT || exit 9
git checkout -q -- . 2>/dev/null
R="$P/$K"
git apply --check $D/patch.diff 2>/dev/null || { echo "$R APPLY_FAIL"; exit 1; }
git apply $D/patch.diff
go build -ldflags=-checklinkname=0 ./... >/tmp/vlog_build_$P_$K.log 2>&1 || { echo "$R BUILD_FAIL"; git checkout -q -- .; exit 1; }
# pinned suite minus common/utls (fixed ports collide under parallel runs; no seed touches it)
PKGS="./broker/ ./common/amp/ ./common/encapsulation/ ./common/ipsetsink/... ./common/messages/ ./common/namematcher/ ./common/safelog/ ./common/websocketconn/"
go test -vet=off -count=1 $PKGS > /tmp/vlog_test_${P}_$K.log 2>&1; T=$?
bash $D/demo.sh > /tmp/vlog_demo_with_${P}_$K.log 2>&1; DW=$?
git checkout -q -- . ; git clean -fdq -e out
bash $D/demo.sh > /tmp/vlog_demo_without_${P}_$K.log 2>&1; DO=$?
git checkout -q -- . ; git clean -fdq -e out
echo "$R tests=$T demo_with_patch=$DW demo_without=$DO"
