#!/bin/bash
# tools/import_round.sh <seedroot> <round> Cxx <k> <tests> <demo_with> <demo_without> <first_pass_own:true|false> "<caught_by csv>"
# copy a confirmed seeded change from the agent's scratch worktree into /verif/seeded/Cxx_r<round>_<k>/
ROOT=$1; R=$2; P=$3; K=$4; T=$5; DW=$6; DO=$7; FP=$8; CB=$9
SRC=$ROOT/$P/out/$K; DST=/verif/seeded/${P}_r${R}_$K
mkdir -p $DST
cp -r $SRC/. $DST/
mv $DST/meta.json $DST/agent_meta.json
python3 - "$DST" "$P" "$R" "$K" "$T" "$DW" "$DO" "$FP" "$CB" "$(git -C /repo rev-parse --short HEAD)" <<'EOF'
import json,sys
dst,p,r,k,t,dw,do,fp,cb,head=sys.argv[1:]
a=json.load(open(dst+'/agent_meta.json'))
m={"id":f"{p}_r{r}_{k}","property":p,"round":int(r),
 "summary":a.get("summary",""),"needs_to_manifest":a.get("needs_to_manifest",""),
 "files_changed":a.get("files_changed",[]),
 "origin":"independent sub-agent given only the property text, one-line summaries of the earlier rounds' changes to avoid, a list of kinds of change to try, and a scratch worktree of /repo (nothing from /verif)",
 "confirmed_by_me":{"how":f"tools/verify_seed.sh in the agent's scratch worktree (base {head}): git apply patch.diff; go build -ldflags=-checklinkname=0 ./...; pinned packages' tests with the patch; demo.sh with the patch; git checkout; demo.sh without the patch",
   "pinned_tests_exit_with_patch":int(t),"demo_exit_with_patch":int(dw),"demo_exit_without_patch":int(do),
   "verdict":"kept: compiles, pinned tests pass, demonstration fails with the change and passes without"},
 "static_checks":{"how":"tools/try_seed.sh: patch applied to a scratch worktree of /repo HEAD, bin/sfcheck -prop all",
   "first_pass_own_check_reported_it": fp=="true","caught_by":[x for x in cb.split(',') if x],"check_broken":[]}}
json.dump(m,open(dst+'/meta.json','w'),indent=1)
EOF
# the demo refers to the agent's scratch path; keep it runnable from a worktree named in $WT
sed -i "s#$ROOT/$P/out/$K#\${SEED_DIR:-$DST}#g; s#$ROOT/$P#\${WT:-$ROOT/$P}#g" $DST/demo.sh 2>/dev/null
echo "imported $DST"
