#!/usr/bin/env python3
"""tools/mut_tests.py <mutants.jsonl> <ids-file> <shard> <nshards> <out>: for the listed mutant ids (those no check
reported), apply the mutant to a scratch worktree and run the unit tests of the mutated package; records whether the
existing tests kill it. Used only to shorten the list that is read by hand (tools/mutgen); not a check."""
import json, os, subprocess, sys
muts, idsf, shard, n, out = sys.argv[1], sys.argv[2], int(sys.argv[3]), int(sys.argv[4]), sys.argv[5]
ids = set(l.split()[0] for l in open(idsf))
wt = f'/tmp/wt_mutt_{shard}'
if not os.path.isdir(wt):
    subprocess.run(['git', '-C', '/repo', 'worktree', 'add', '-q', '--detach', wt, 'HEAD'], check=True)
subprocess.run(['git', '-C', wt, 'checkout', '-q', '--', '.'])
env = dict(os.environ, GOFLAGS='-mod=readonly', GOPROXY='off', GOSUMDB='off', GOTOOLCHAIN='local')
done = set()
if os.path.exists(out):
    done = set(l.split()[0] for l in open(out))
k = 0
with open(out, 'a') as o:
    for l in open(muts):
        m = json.loads(l)
        if m['id'] not in ids:
            continue
        k += 1
        if k % n != shard or m['id'] in done:
            continue
        p = os.path.join(wt, m['file'])
        src = open(p, 'rb').read()
        open(p, 'wb').write(src[:m['start']] + m['repl'].encode() + src[m['end']:])
        pkg = './' + os.path.dirname(m['file']) + '/'
        try:
            r = subprocess.run(['go', 'test', '-vet=off', '-count=1', '-ldflags=-checklinkname=0', '-timeout', '150s', pkg], cwd=wt, env=env, capture_output=True, text=True, timeout=200)
            res = 'SURVIVES' if r.returncode == 0 else 'killed'
            if 'no test files' in r.stdout:
                res = 'SURVIVES(no tests)'
        except subprocess.TimeoutExpired:
            res = 'killed(timeout)'
        open(p, 'wb').write(src)
        o.write('%s %s:%d %s %s %s | %s\n' % (m['id'], m['file'], m['line'], m['func'], m['kind'], res, m['orig'][:120]))
        o.flush()
