#!/bin/bash
# tools/refac_matrix.sh <root> [groups...] : apply each behaviour-preserving refactoring patch to a scratch worktree and run all checks; anything reported is a false alarm
ROOT=${1:-/verif/refactorings}; shift
WT=${WT:-/tmp/wt_refac}
cd /verif
[ -d $WT ] || git -C /repo worktree add -q --detach $WT HEAD
git -C $WT checkout -q -- . ; git -C $WT checkout -q --detach "$(git -C /repo rev-parse HEAD)"
for g in ${@:-$(ls $ROOT)}; do
 for d in $(ls -d $ROOT/$g/out/*/ $ROOT/$g/*/ 2>/dev/null | sort -V); do
  [ -f $d/patch.diff ] || continue
  git -C $WT checkout -q -- . ; git -C $WT clean -fdq
  if ! git -C $WT apply $d/patch.diff 2>/dev/null; then echo "$d APPLY_FAIL"; continue; fi
  out=$(${BIN:-./bin/sfcheck} -repo $WT -prop all -out /tmp/vout_refac 2>&1)
  bad=$(echo "$out" | grep -E "^   (VIOLATION|UNDECIDED)|CHECK-BROKEN" | cut -c1-${WIDTH:-260})
  if [ -z "$bad" ]; then echo "$d silent"; else echo "$d FALSE-ALARM:"; echo "$bad" | head -8; fi
 done
done
git -C $WT checkout -q -- . ; git -C $WT clean -fdq
