#!/usr/bin/env python3
"""Regenerates /verif/MANIFEST.json from the table below (run from /verif)."""
import json, sys

import subprocess

TECH = {
 "C01": "static: constant/table agreement between client and server glue, provenance of carrier preamble (go/ssa)",
 "C02": "static: who-may-write + must-lockset + value provenance + edge-cut reachability on SSA",
 "C03": "static: edge-cut reachability on NAT comparisons, constant-table agreement, comparator shape",
 "C04": "static: channel-operation classification, must-pass-through path pairing, must-lockset",
 "C05": "static: value provenance and edge-cut reachability on the server carrier path, who-may-call",
 "C06": "static: edge-cut reachability (guards before dial/registration), provenance of matcher operands",
 "C07": "static: sink wiring by edge-cut reachability, regexp/syntax delimiter analysis, taint to PT log",
 "C08": "static: syntactic CIDR extraction from IsLocal, filter-shape reachability, sanitiser dominance",
 "C09": "static: io.Reader-contract rule on SSA, mask/shift constant tables, EOF edge shape",
 "C10": "static: constant agreement encoder/decoder, must-pass-through for SetMaxBuf, state-machine edges, symbolic comparison of the scanner's advance with the token bounds",
 "C11": "static: store-order rule for fronting, limit/status edge guards, codec constant agreement",
 "C12": "static: schema identity (types), edge-cut reachability of success returns through validations, error discipline (no discarded decoder error, failure branches leave, constant format strings)",
 "C13": "static: termination-construct reachability (E-PANIC) + use-after-error edge-cut reachability, nil interface results followed through the VTA call graph",
 "C14": "static: termination-construct reachability from HTTP handlers, label-set agreement, status mapping paths",
 "C15": "static: close-once/typestate rule, lockset x channel-mode rule, capacity gate reachability, nil-after-error summaries, release-on-failure consistency (E-CLEANUP), lock pairing",
 "C16": "static: path pairing of slot get/ret over the CFG with hand-off events, arithmetic shape, release-on-failure consistency (E-CLEANUP), lock pairing",
 "C17": "static: goroutine-exit channel rule, copy-on-enqueue provenance, close-once order, expiry comparison shape, release-on-failure consistency (E-CLEANUP), guarded-by rows of the client map",
 "C18": "static: sanitiser shape reachability, provenance of address through the ring map, ring index arithmetic shape",
 "C19": "static: taint to logger through binCount, must-lockset/atomic discipline, predicate orientation",
 "C20": "static: flow-sensitive must-lockset against an explicit guarded-by table, atomic discipline, lock pairing/order (never-released locks included), send-vs-close and store-after-go rules",
}

def load_meta():
    out = subprocess.run(["/verif/bin/sfcheck", "-list"], capture_output=True, text=True, check=True).stdout
    return json.loads(out)

META = load_meta()
CLAIMED = {}
for pid, m in META.items():
    text = ("Structural necessary conditions only (level 'other'): " + m["explanation"])
    note = "Not decided: " + m["not_decided"] + " Trusted/assumed: " + "; ".join(m["assumptions"]) + "; go/types and go/ssa (x/tools v0.29.0)."
    CLAIMED[pid] = (TECH[pid], text, note, "DESIGN.md section 2, " + pid)

NOT_YET = "not claimed yet: rule set for this property is still under construction (see DESIGN.md section 2 for the planned structural clauses)"

def main():
    props = [json.loads(l) for l in open("properties.jsonl")]
    checks, na = [], []
    for p in props:
        pid = p["id"]
        if pid in CLAIMED:
            tech, text, note, ref = CLAIMED[pid]
            checks.append({
                "property_id": pid,
                "quick_cmd": f"./check {pid} quick",
                "thorough_cmd": f"./check {pid} thorough",
                "evidence_file": f"/verif/evidence/{pid}.json",
                "replay_cmd_template": f"./check {pid} --replay {{path}}",
                "engine": "sfcheck",
                "level_claimed": {"category": "other", "text": text, "design_ref": ref},
                "level_note": note,
                "technique": tech,
            })
        else:
            na.append({"property_id": pid, "reason": NA.get(pid, NOT_YET)})
    m = {
        "version": 1,
        "setup_cmd": "cd /verif/checker && GOFLAGS=-mod=mod GOPROXY=off GOSUMDB=off GOTOOLCHAIN=local GOWORK=off go build -o /verif/bin/sfcheck .",
        "hooks": {
            "guard": "verif",
            "enable": "none: static analysis reads the source of /repo's working tree; no instrumentation or build tag is needed",
            "baseline_off_cmd": "cd /repo && GOPROXY=off GOSUMDB=off GOTOOLCHAIN=local go test -mod=readonly -json -vet=off -count=1 -timeout 25m ./...",
            "source_commits": [],
            "add_only": True,
        },
        "engines": [{
            "name": "sfcheck",
            "path": "/verif/checker",
            "serves_properties": sorted(CLAIMED),
            "kind_free_text": "repository-specific static analyser: go/packages -> go/types -> go/ssa; edge-cut CFG reachability, value provenance, must-lockset, channel-operation classification, termination-construct reachability, constant/table agreement",
        }],
        "checks": checks,
        "not_applicable": na,
        "notes": "All claims are at level 'other': each check decides structural necessary conditions of its property from the type-checked source (see DESIGN.md); none runs repository code. Genuine defects found by the rules were repaired in /repo by 'fix:' commits recorded in known_findings.json.",
    }
    json.dump(m, open("MANIFEST.json", "w"), indent=1)
    open("MANIFEST.json", "a").write("\n")

NA = {}
if __name__ == "__main__":
    main()
