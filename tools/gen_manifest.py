#!/usr/bin/env python3
"""Regenerates /verif/MANIFEST.json from the table below (run from /verif)."""
import json, sys

CLAIMED = {
 # id: (technique, level text, level_note, design_ref)
 "C13": ("static: E-PANIC reachability of termination constructs + E-GUARD edge-cut reachability on SSA",
         "Decides structural necessary conditions only: from the session-description entry points no repository code path contains an explicit panic/Fatal/Exit or an undischarged single-value type assertion, constant submatch indexes are within the pattern's groups, and every caller dereferences the returned description only behind the err == nil edge. A violation is a concrete crash path in the source; the behaviour (round-trip equality, third-party parser robustness) is not decided.",
         "Trusted: go/types, go/ssa, third-party parsers (pion/sdp, pion/ice, encoding/json) never panic; variable-index slice accesses are not analysed.",
         "DESIGN.md section 2, C13"),
}

NOT_YET = "not claimed yet: rule set for this property is still under construction (see DESIGN.md section 2 for the planned structural clauses)"

def main():
    props = [json.loads(l) for l in open("properties.jsonl")]
    checks, na = [], []
    for p in props:
        pid = p["id"]
        if pid in CLAIMED:
            tech, text, note, ref = CLAIMED[pid]
            checks.append({
                "property_id": pid,
                "quick_cmd": f"./check {pid} quick",
                "thorough_cmd": f"./check {pid} thorough",
                "evidence_file": f"/verif/evidence/{pid}.json",
                "replay_cmd_template": f"./check {pid} --replay {{path}}",
                "engine": "sfcheck",
                "level_claimed": {"category": "other", "text": text, "design_ref": ref},
                "level_note": note,
                "technique": tech,
            })
        else:
            na.append({"property_id": pid, "reason": NA.get(pid, NOT_YET)})
    m = {
        "version": 1,
        "setup_cmd": "cd /verif/checker && GOFLAGS=-mod=mod GOPROXY=off GOSUMDB=off GOTOOLCHAIN=local GOWORK=off go build -o /verif/bin/sfcheck .",
        "hooks": {
            "guard": "verif",
            "enable": "none: static analysis reads the source of /repo's working tree; no instrumentation or build tag is needed",
            "baseline_off_cmd": "cd /repo && GOPROXY=off GOSUMDB=off GOTOOLCHAIN=local go test -mod=readonly -json -vet=off -count=1 -timeout 25m ./...",
            "source_commits": [],
            "add_only": True,
        },
        "engines": [{
            "name": "sfcheck",
            "path": "/verif/checker",
            "serves_properties": sorted(CLAIMED),
            "kind_free_text": "repository-specific static analyser: go/packages -> go/types -> go/ssa; edge-cut CFG reachability, value provenance, must-lockset, channel-operation classification, termination-construct reachability, constant/table agreement",
        }],
        "checks": checks,
        "not_applicable": na,
        "notes": "All claims are at level 'other': each check decides structural necessary conditions of its property from the type-checked source (see DESIGN.md); none runs repository code. Genuine defects found by the rules were repaired in /repo by 'fix:' commits recorded in known_findings.json.",
    }
    json.dump(m, open("MANIFEST.json", "w"), indent=1)
    open("MANIFEST.json", "a").write("\n")

NA = {}
if __name__ == "__main__":
    main()
