#!/usr/bin/env python3
"""tools/mut_matrix.py <mutants.jsonl> <shard> <nshards> <out>: apply each mechanical mutant (tools/mutgen) of this
shard to a scratch worktree of /repo HEAD, run all checks with the frozen binary $BIN, and record which properties
report it. A gap finder for the rule set, not a check."""
import json, os, subprocess, sys, re
muts, shard, n, out = sys.argv[1], int(sys.argv[2]), int(sys.argv[3]), sys.argv[4]
BIN = os.environ.get('BIN', '/verif/bin/sfcheck')
wt = f'/tmp/wt_mut_{shard}'
if not os.path.isdir(wt):
    subprocess.run(['git', '-C', '/repo', 'worktree', 'add', '-q', '--detach', wt, 'HEAD'], check=True)
subprocess.run(['git', '-C', wt, 'checkout', '-q', '--', '.'])
done = set()
if os.path.exists(out):
    for l in open(out):
        done.add(l.split()[0])
with open(out, 'a') as o:
    for i, l in enumerate(open(muts)):
        if i % n != shard:
            continue
        m = json.loads(l)
        if m['id'] in done:
            continue
        p = os.path.join(wt, m['file'])
        src = open(p, 'rb').read()
        open(p, 'wb').write(src[:m['start']] + m['repl'].encode() + src[m['end']:])
        r = subprocess.run([BIN, '-repo', wt, '-prop', 'all', '-out', f'/tmp/vout_mut_{shard}'], capture_output=True, text=True)
        open(p, 'wb').write(src)
        txt = r.stdout + r.stderr
        if 'CHECK-BROKEN: cannot load' in txt:
            res = 'NOCOMPILE'
        else:
            viol = sorted(set(re.findall(r'^VIOLATION property=(C\d\d)', txt, re.M)))
            brk = sorted(set(re.findall(r'^CHECK-BROKEN property=(C\d\d)', txt, re.M)))
            res = 'caught=[%s] broken=[%s]' % (' '.join(viol), ' '.join(brk))
        o.write('%s %s:%d %s %s %s | %s\n' % (m['id'], m['file'], m['line'], m['func'], m['kind'], res, m['orig'][:120]))
        o.flush()
