# source me: environment every go invocation of the verification machinery needs
export GOFLAGS=-mod=mod GOPROXY=off GOSUMDB=off GOTOOLCHAIN=local
export CARGO_NET_OFFLINE=true PIP_NO_INDEX=1
unset GOWORK
